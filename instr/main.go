// Command instr generates a `go build -overlay` file that replaces selected /repo source files by
// instrumented copies. /repo is never modified.
//
// Rewrite "maporder": every `for k, v := range m` whose m is a map (decided with go/types over the
// compiler's export data) iterates simrt.Keys(m, site) instead, so that the simulator chooses the order.
// Rewrite "yield" (schedule exploration, selected packages): see yield.go.
//
// usage: instr -repo /repo -out DIR -maporder pkg1,pkg2,... [-yield pkgA,pkgB]
// exit 2 on any parse/type-check trouble (infrastructure, never a verdict).
package main

import (
	"bytes"
	"encoding/json"
	"flag"
	"fmt"
	"go/ast"
	"go/format"
	"go/importer"
	"go/parser"
	"go/token"
	"go/types"
	"io"
	"os"
	"os/exec"
	"path/filepath"
	"strconv"
	"strings"
)

type listPkg struct {
	ImportPath string
	Dir        string
	Export     string
	GoFiles    []string
	CgoFiles   []string
	DepOnly    bool
	ImportMap  map[string]string
	Standard   bool
	Error      *struct{ Err string }
}

func fail(format string, args ...interface{}) {
	fmt.Fprintf(os.Stderr, "instr: "+format+"\n", args...)
	os.Exit(2)
}

const simrtPath = "evsim/simrt"

func main() {
	repo := flag.String("repo", "/repo", "repository root")
	out := flag.String("out", "", "output directory (overlay.json + instrumented files)")
	mapPkgs := flag.String("maporder", "", "comma separated package patterns (relative to the module, e.g. ./x/evm/...)")
	yieldPkgs := flag.String("yield", "", "comma separated package patterns for yield instrumentation")
	goBin := flag.String("go", "go1.26.8", "go command")
	flag.Parse()
	if *out == "" {
		fail("-out required")
	}
	if err := os.MkdirAll(*out, 0o755); err != nil {
		fail("%v", err)
	}
	var patterns []string
	for _, p := range strings.Split(*mapPkgs+","+*yieldPkgs, ",") {
		if p = strings.TrimSpace(p); p != "" {
			patterns = append(patterns, p)
		}
	}
	if len(patterns) == 0 {
		fail("no packages")
	}
	args := append([]string{"list", "-export", "-deps", "-json=ImportPath,Dir,Export,GoFiles,CgoFiles,DepOnly,ImportMap,Standard,Error"}, patterns...)
	cmd := exec.Command(*goBin, args...)
	cmd.Dir = *repo
	cmd.Env = append(os.Environ(), "GOFLAGS=-mod=mod", "GOPROXY=off", "GOSUMDB=off", "GOTOOLCHAIN=local")
	var stderr bytes.Buffer
	cmd.Stderr = &stderr
	outBytes, err := cmd.Output()
	if err != nil {
		fail("go list failed: %v\n%s", err, stderr.String())
	}
	dec := json.NewDecoder(bytes.NewReader(outBytes))
	exports := map[string]string{}
	var targets []*listPkg
	for {
		var p listPkg
		if err := dec.Decode(&p); err == io.EOF {
			break
		} else if err != nil {
			fail("decode go list: %v", err)
		}
		if p.Export != "" {
			exports[p.ImportPath] = p.Export
		}
		if !p.DepOnly {
			if p.Error != nil {
				fail("package %s: %s", p.ImportPath, p.Error.Err)
			}
			q := p
			targets = append(targets, &q)
		}
	}
	mapSet := matchSet(*repo, *goBin, *mapPkgs)
	yieldSet := matchSet(*repo, *goBin, *yieldPkgs)

	fset := token.NewFileSet()
	overlay := map[string]string{}
	stats := map[string]int{}
	for _, p := range targets {
		doMap, doYield := mapSet[p.ImportPath], yieldSet[p.ImportPath]
		if !doMap && !doYield {
			continue
		}
		var files []*ast.File
		var names []string
		for _, f := range p.GoFiles {
			fn := filepath.Join(p.Dir, f)
			af, err := parser.ParseFile(fset, fn, nil, parser.ParseComments)
			if err != nil {
				fail("parse %s: %v", fn, err)
			}
			files = append(files, af)
			names = append(names, fn)
		}
		lookup := func(path string) (io.ReadCloser, error) {
			if m, ok := p.ImportMap[path]; ok {
				path = m
			}
			e, ok := exports[path]
			if !ok {
				return nil, fmt.Errorf("no export data for %s", path)
			}
			return os.Open(e)
		}
		info := &types.Info{Types: map[ast.Expr]types.TypeAndValue{}}
		conf := types.Config{Importer: importer.ForCompiler(fset, "gc", lookup), GoVersion: "go1.22", Error: func(err error) {}}
		if _, err := conf.Check(p.ImportPath, fset, files, info); err != nil {
			// a file set with cgo or build-tag trouble: type info may be partial; only fail when a range could not be typed
			stats["typecheck_warnings"]++
		}
		for i, af := range files {
			changed := false
			if doMap {
				n := rewriteMapRanges(fset, af, info, relSite(*repo, names[i]), stats)
				changed = changed || n > 0
			}
			if doYield {
				n := rewriteYields(fset, af, info, relSite(*repo, names[i]), stats)
				changed = changed || n > 0
				if n > 0 {
					// statements were moved into new function literals: comments inside function bodies would be printed at
					// stale positions (and can break the syntax). Keep only what precedes the package clause (build constraints).
					var keep []*ast.CommentGroup
					for _, cg := range af.Comments {
						if cg.End() < af.Package {
							keep = append(keep, cg)
						}
					}
					af.Comments = keep
				}
			}
			if !changed {
				continue
			}
			addImport(af, simrtPath)
			var buf bytes.Buffer
			if err := format.Node(&buf, fset, af); err != nil {
				fail("print %s: %v", names[i], err)
			}
			rel, _ := filepath.Rel(*repo, names[i])
			dst := filepath.Join(*out, "src", rel)
			if err := os.MkdirAll(filepath.Dir(dst), 0o755); err != nil {
				fail("%v", err)
			}
			if err := os.WriteFile(dst, buf.Bytes(), 0o644); err != nil {
				fail("%v", err)
			}
			overlay[names[i]] = dst
		}
	}
	ov, _ := json.MarshalIndent(map[string]interface{}{"Replace": overlay}, "", " ")
	if err := os.WriteFile(filepath.Join(*out, "overlay.json"), ov, 0o644); err != nil {
		fail("%v", err)
	}
	st, _ := json.Marshal(stats)
	_ = os.WriteFile(filepath.Join(*out, "stats.json"), st, 0o644)
	fmt.Printf("instr: %d files instrumented %s\n", len(overlay), st)
}

func matchSet(repo, goBin, patterns string) map[string]bool {
	set := map[string]bool{}
	var ps []string
	for _, p := range strings.Split(patterns, ",") {
		if p = strings.TrimSpace(p); p != "" {
			ps = append(ps, p)
		}
	}
	if len(ps) == 0 {
		return set
	}
	cmd := exec.Command(goBin, append([]string{"list"}, ps...)...)
	cmd.Dir = repo
	cmd.Env = append(os.Environ(), "GOFLAGS=-mod=mod", "GOPROXY=off", "GOSUMDB=off", "GOTOOLCHAIN=local")
	b, err := cmd.Output()
	if err != nil {
		fail("go list %v: %v", ps, err)
	}
	for _, l := range strings.Split(string(b), "\n") {
		if l = strings.TrimSpace(l); l != "" {
			set[l] = true
		}
	}
	return set
}

func relSite(repo, file string) string {
	r, err := filepath.Rel(repo, file)
	if err != nil {
		return file
	}
	return r
}

func addImport(f *ast.File, path string) {
	for _, im := range f.Imports {
		if im.Path.Value == strconv.Quote(path) {
			return
		}
	}
	spec := &ast.ImportSpec{Name: ast.NewIdent("simrt__"), Path: &ast.BasicLit{Kind: token.STRING, Value: strconv.Quote(path)}}
	decl := &ast.GenDecl{Tok: token.IMPORT, Specs: []ast.Spec{spec}}
	f.Decls = append([]ast.Decl{decl}, f.Decls...)
	f.Imports = append(f.Imports, spec)
}

func simpleExpr(e ast.Expr) bool {
	switch x := e.(type) {
	case *ast.Ident:
		return true
	case *ast.SelectorExpr:
		return simpleExpr(x.X)
	case *ast.ParenExpr:
		return simpleExpr(x.X)
	case *ast.StarExpr:
		return simpleExpr(x.X)
	}
	return false
}

func isBlank(e ast.Expr) bool {
	id, ok := e.(*ast.Ident)
	return ok && id.Name == "_"
}

// rewriteMapRanges rewrites `for k, v := range m {B}` (m a map) into
// `for _, k := range simrt.Keys(m, site) { v, ok := m[k]; if !ok { continue }; B }`.
func rewriteMapRanges(fset *token.FileSet, f *ast.File, info *types.Info, site string, stats map[string]int) int {
	n := 0
	ast.Inspect(f, func(node ast.Node) bool {
		rs, ok := node.(*ast.RangeStmt)
		if !ok {
			return true
		}
		tv, ok := info.Types[rs.X]
		if !ok || tv.Type == nil {
			stats["range_untyped"]++
			return true
		}
		if _, isMap := tv.Type.Underlying().(*types.Map); !isMap {
			return true
		}
		if _, isTP := tv.Type.(*types.TypeParam); isTP {
			stats["map_range_skipped_generic"]++
			return true
		}
		if rs.Tok != token.DEFINE && rs.Key != nil {
			stats["map_range_skipped_assign"]++
			return true
		}
		if !simpleExpr(rs.X) {
			stats["map_range_skipped_complex_expr"]++
			return true
		}
		line := fset.Position(rs.Pos()).Line
		siteLit := &ast.BasicLit{Kind: token.STRING, Value: strconv.Quote(fmt.Sprintf("%s:%d", site, line))}
		keyName := "k__sim"
		if rs.Key != nil && !isBlank(rs.Key) {
			keyName = rs.Key.(*ast.Ident).Name
		}
		keyIdent := ast.NewIdent(keyName)
		var pre []ast.Stmt
		idx := &ast.IndexExpr{X: rs.X, Index: ast.NewIdent(keyName)}
		okName := "ok__sim"
		if rs.Value != nil && !isBlank(rs.Value) {
			pre = append(pre, &ast.AssignStmt{Lhs: []ast.Expr{rs.Value, ast.NewIdent(okName)}, Tok: token.DEFINE, Rhs: []ast.Expr{idx}})
			// silence "declared and not used" when the body never reads v (it did compile before, so v is used) — nothing to do
		} else {
			pre = append(pre, &ast.AssignStmt{Lhs: []ast.Expr{ast.NewIdent("_"), ast.NewIdent(okName)}, Tok: token.DEFINE, Rhs: []ast.Expr{idx}})
		}
		pre = append(pre, &ast.IfStmt{Cond: &ast.UnaryExpr{Op: token.NOT, X: ast.NewIdent(okName)}, Body: &ast.BlockStmt{List: []ast.Stmt{&ast.BranchStmt{Tok: token.CONTINUE}}}})
		if rs.Key == nil {
			// `for range m`: order is unobservable
			return true
		}
		rs.Body.List = append(pre, rs.Body.List...)
		rs.Key = ast.NewIdent("_")
		rs.Value = keyIdent
		rs.Tok = token.DEFINE
		rs.X = &ast.CallExpr{Fun: &ast.SelectorExpr{X: ast.NewIdent("simrt__"), Sel: ast.NewIdent("Keys")}, Args: []ast.Expr{rs.X, siteLit}}
		n++
		stats["map_ranges"]++
		return true
	})
	return n
}
