package main

import (
	"go/ast"
	"go/token"
	"go/types"
)

// rewriteYields is implemented in a later step (schedule exploration of the RPC packages).
func rewriteYields(fset *token.FileSet, f *ast.File, info *types.Info, site string, stats map[string]int) int {
	return 0
}
