package main

import (
	"fmt"
	"go/ast"
	"go/token"
	"go/types"
	"strconv"
)

// rewriteYields makes every synchronisation operation of a file a cooperative scheduling point of the
// simulator (package simrt). With no scheduler installed every inserted call is a no-op / plain delegation:
//
//	X.Lock() / X.RLock()          -> simrt.LockW(&X, site) / simrt.LockR(&X, site)      (TryLock loop with yields)
//	X.Unlock() / X.RUnlock()      -> simrt.UnlockW(&X, site) / simrt.UnlockR(&X, site)  (also when deferred)
//	ch <- v, <-ch, select, close  -> simrt.Yield(site) before and after the statement / at the head of every select case
//	go f(a, b)                    -> { a0 := a; b0 := b; simrt.Go(site, func() { f(a0, b0) }) }
//	m[k] = v, delete(m, k)        -> simrt.MapWrite(site) before (lock-discipline probe)
//
// All rewrites are semantics preserving under the Go memory model (they only add scheduling points).
func rewriteYields(fset *token.FileSet, f *ast.File, info *types.Info, site string, stats map[string]int) int {
	n := 0
	siteAt := func(p token.Pos) ast.Expr {
		return &ast.BasicLit{Kind: token.STRING, Value: strconv.Quote(fmt.Sprintf("%s:%d", site, fset.Position(p).Line))}
	}
	call := func(fn string, args ...ast.Expr) *ast.CallExpr {
		return &ast.CallExpr{Fun: &ast.SelectorExpr{X: ast.NewIdent("simrt__"), Sel: ast.NewIdent(fn)}, Args: args}
	}
	yieldStmt := func(p token.Pos) ast.Stmt { return &ast.ExprStmt{X: call("Yield", siteAt(p))} }

	// mutexPtr returns an expression of type *sync.Mutex / *sync.RWMutex for the receiver of a Lock-family call
	mutexPtr := func(recv ast.Expr) (ast.Expr, bool) {
		tv, ok := info.Types[recv]
		if !ok || tv.Type == nil {
			return nil, false
		}
		t := tv.Type
		isPtr := false
		if p, ok := t.(*types.Pointer); ok {
			t, isPtr = p.Elem(), true
		}
		named, ok := t.(*types.Named)
		if !ok || named.Obj().Pkg() == nil || named.Obj().Pkg().Path() != "sync" {
			return nil, false
		}
		if nm := named.Obj().Name(); nm != "Mutex" && nm != "RWMutex" {
			return nil, false
		}
		if isPtr {
			return recv, true
		}
		return &ast.UnaryExpr{Op: token.AND, X: recv}, true
	}
	lockCall := func(c *ast.CallExpr) (*ast.CallExpr, bool) {
		sel, ok := c.Fun.(*ast.SelectorExpr)
		if !ok || len(c.Args) != 0 {
			return nil, false
		}
		fn := map[string]string{"Lock": "LockW", "RLock": "LockR", "Unlock": "UnlockW", "RUnlock": "UnlockR"}[sel.Sel.Name]
		if fn == "" {
			return nil, false
		}
		ptr, ok := mutexPtr(sel.X)
		if !ok {
			return nil, false
		}
		return call(fn, ptr, siteAt(c.Pos())), true
	}
	hasRecv := func(node ast.Node) bool {
		found := false
		ast.Inspect(node, func(x ast.Node) bool {
			if _, isFn := x.(*ast.FuncLit); isFn {
				return false
			}
			if u, ok := x.(*ast.UnaryExpr); ok && u.Op == token.ARROW {
				found = true
			}
			return !found
		})
		return found
	}
	isMapIndex := func(e ast.Expr) bool {
		ix, ok := e.(*ast.IndexExpr)
		if !ok {
			return false
		}
		tv, ok := info.Types[ix.X]
		if !ok || tv.Type == nil {
			return false
		}
		_, isMap := tv.Type.Underlying().(*types.Map)
		return isMap
	}

	var rewriteList func(list []ast.Stmt) []ast.Stmt
	rewriteList = func(list []ast.Stmt) []ast.Stmt {
		var out []ast.Stmt
		for _, st := range list {
			switch s := st.(type) {
			case *ast.ExprStmt:
				if c, ok := s.X.(*ast.CallExpr); ok {
					if lc, ok := lockCall(c); ok {
						s.X = lc
						n++
						stats["yield_lock_ops"]++
						out = append(out, s)
						continue
					}
					if id, ok := c.Fun.(*ast.Ident); ok && id.Name == "close" && len(c.Args) == 1 {
						out = append(out, yieldStmt(s.Pos()), s, yieldStmt(s.Pos()))
						n++
						stats["yield_close"]++
						continue
					}
					if id, ok := c.Fun.(*ast.Ident); ok && id.Name == "delete" && len(c.Args) == 2 {
						out = append(out, &ast.ExprStmt{X: call("MapWrite", siteAt(s.Pos()))}, s)
						n++
						stats["map_write_probes"]++
						continue
					}
				}
				if hasRecv(s) {
					out = append(out, yieldStmt(s.Pos()), s, yieldStmt(s.Pos()))
					n++
					stats["yield_recv"]++
					continue
				}
			case *ast.DeferStmt:
				if lc, ok := lockCall(s.Call); ok {
					s.Call = lc
					n++
					stats["yield_lock_ops"]++
				}
			case *ast.SendStmt:
				out = append(out, yieldStmt(s.Pos()), s, yieldStmt(s.Pos()))
				n++
				stats["yield_send"]++
				continue
			case *ast.AssignStmt:
				if hasRecv(s) {
					out = append(out, yieldStmt(s.Pos()), s, yieldStmt(s.Pos()))
					n++
					stats["yield_recv"]++
					continue
				}
				for _, l := range s.Lhs {
					if isMapIndex(l) {
						out = append(out, &ast.ExprStmt{X: call("MapWrite", siteAt(s.Pos()))})
						n++
						stats["map_write_probes"]++
						break
					}
				}
			case *ast.SelectStmt:
				out = append(out, yieldStmt(s.Pos()))
				n++
				stats["yield_select"]++
			case *ast.GoStmt:
				// bind the arguments now (as the go statement does), run the call under the simulator's scheduler
				var pre []ast.Stmt
				args := make([]ast.Expr, len(s.Call.Args))
				for i, a := range s.Call.Args {
					name := fmt.Sprintf("goarg%d__sim", i)
					pre = append(pre, &ast.AssignStmt{Lhs: []ast.Expr{ast.NewIdent(name)}, Tok: token.DEFINE, Rhs: []ast.Expr{a}})
					args[i] = ast.NewIdent(name)
				}
				inner := &ast.CallExpr{Fun: s.Call.Fun, Args: args, Ellipsis: s.Call.Ellipsis}
				goCall := &ast.ExprStmt{X: call("Go", siteAt(s.Pos()), &ast.FuncLit{Type: &ast.FuncType{Params: &ast.FieldList{}}, Body: &ast.BlockStmt{List: []ast.Stmt{&ast.ExprStmt{X: inner}}}})}
				out = append(out, &ast.BlockStmt{List: append(pre, goCall)})
				n++
				stats["yield_go"]++
				continue
			}
			out = append(out, st)
		}
		return out
	}

	ast.Inspect(f, func(node ast.Node) bool {
		switch x := node.(type) {
		case *ast.BlockStmt:
			x.List = rewriteList(x.List)
		case *ast.CaseClause:
			x.Body = rewriteList(x.Body)
		case *ast.CommClause:
			x.Body = append([]ast.Stmt{yieldStmt(x.Pos())}, rewriteList(x.Body)...)
			n++
		case *ast.RangeStmt:
			if tv, ok := info.Types[x.X]; ok && tv.Type != nil {
				if _, isChan := tv.Type.Underlying().(*types.Chan); isChan && x.Body != nil {
					x.Body.List = append([]ast.Stmt{yieldStmt(x.Pos())}, x.Body.List...)
					n++
					stats["yield_range_chan"]++
				}
			}
		}
		return true
	})
	return n
}
