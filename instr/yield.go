package main

import (
	"fmt"
	"go/ast"
	"go/token"
	"go/types"
	"strconv"
)

// rewriteYields makes every synchronisation operation of a file a cooperative scheduling point of the
// simulator (package simrt). With no scheduler installed every inserted call is a no-op / plain delegation:
//
//	X.Lock() / X.RLock()          -> simrt.LockW(&X, site) / simrt.LockR(&X, site)      (TryLock loop with yields)
//	X.Unlock() / X.RUnlock()      -> simrt.UnlockW(&X, site) / simrt.UnlockR(&X, site)  (also when deferred)
//	ch <- v, <-ch, select, close  -> simrt.Yield(site) before and after the statement / at the head of every select case
//	go f(a, b)                    -> { a0 := a; b0 := b; simrt.Go(site, func() { f(a0, b0) }) }
//	m[k] = v, delete(m, k)        -> simrt.MapWrite(site) before (lock-discipline probe)
//
// All rewrites are semantics preserving under the Go memory model (they only add scheduling points).
func rewriteYields(fset *token.FileSet, f *ast.File, info *types.Info, site string, stats map[string]int) int {
	n := 0
	siteAt := func(p token.Pos) ast.Expr {
		return &ast.BasicLit{Kind: token.STRING, Value: strconv.Quote(fmt.Sprintf("%s:%d", site, fset.Position(p).Line))}
	}
	call := func(fn string, args ...ast.Expr) *ast.CallExpr {
		return &ast.CallExpr{Fun: &ast.SelectorExpr{X: ast.NewIdent("simrt__"), Sel: ast.NewIdent(fn)}, Args: args}
	}
	yieldStmt := func(p token.Pos) ast.Stmt { return &ast.ExprStmt{X: call("Yield", siteAt(p))} }

	// mutexPtr returns an expression of type *sync.Mutex / *sync.RWMutex for the receiver of a Lock-family call
	mutexPtr := func(recv ast.Expr) (ast.Expr, bool) {
		tv, ok := info.Types[recv]
		if !ok || tv.Type == nil {
			return nil, false
		}
		t := tv.Type
		isPtr := false
		if p, ok := t.(*types.Pointer); ok {
			t, isPtr = p.Elem(), true
		}
		named, ok := t.(*types.Named)
		if !ok || named.Obj().Pkg() == nil || named.Obj().Pkg().Path() != "sync" {
			return nil, false
		}
		if nm := named.Obj().Name(); nm != "Mutex" && nm != "RWMutex" {
			return nil, false
		}
		if isPtr {
			return recv, true
		}
		return &ast.UnaryExpr{Op: token.AND, X: recv}, true
	}
	lockCall := func(c *ast.CallExpr) (*ast.CallExpr, bool) {
		sel, ok := c.Fun.(*ast.SelectorExpr)
		if !ok || len(c.Args) != 0 {
			return nil, false
		}
		fn := map[string]string{"Lock": "LockW", "RLock": "LockR", "Unlock": "UnlockW", "RUnlock": "UnlockR"}[sel.Sel.Name]
		if fn == "" {
			return nil, false
		}
		ptr, ok := mutexPtr(sel.X)
		if !ok {
			return nil, false
		}
		return call(fn, ptr, siteAt(c.Pos())), true
	}
	hasRecv := func(node ast.Node) bool {
		found := false
		ast.Inspect(node, func(x ast.Node) bool {
			if _, isFn := x.(*ast.FuncLit); isFn {
				return false
			}
			if u, ok := x.(*ast.UnaryExpr); ok && u.Op == token.ARROW {
				found = true
			}
			return !found
		})
		return found
	}
	isMapIndex := func(e ast.Expr) bool {
		ix, ok := e.(*ast.IndexExpr)
		if !ok {
			return false
		}
		tv, ok := info.Types[ix.X]
		if !ok || tv.Type == nil {
			return false
		}
		_, isMap := tv.Type.Underlying().(*types.Map)
		return isMap
	}

	var rewriteList func(list []ast.Stmt) []ast.Stmt
	rewriteList = func(list []ast.Stmt) []ast.Stmt {
		var out []ast.Stmt
		for _, st := range list {
			switch s := st.(type) {
			case *ast.ExprStmt:
				if c, ok := s.X.(*ast.CallExpr); ok {
					if lc, ok := lockCall(c); ok {
						s.X = lc
						n++
						stats["yield_lock_ops"]++
						out = append(out, s)
						continue
					}
					if id, ok := c.Fun.(*ast.Ident); ok && id.Name == "close" && len(c.Args) == 1 {
						out = append(out, yieldStmt(s.Pos()), s, yieldStmt(s.Pos()))
						n++
						stats["yield_close"]++
						continue
					}
					if sel, ok := c.Fun.(*ast.SelectorExpr); ok && sel.Sel.Name == "Sleep" {
						if pk, ok := sel.X.(*ast.Ident); ok && pk.Name == "time" {
							out = append(out, yieldStmt(s.Pos()), s, yieldStmt(s.Pos()))
							n++
							stats["yield_sleep"]++
							continue
						}
					}
					if id, ok := c.Fun.(*ast.Ident); ok && id.Name == "delete" && len(c.Args) == 2 {
						out = append(out, &ast.ExprStmt{X: call("MapWrite", siteAt(s.Pos()))}, s)
						n++
						stats["map_write_probes"]++
						continue
					}
				}
				if hasRecv(s) {
					out = append(out, yieldStmt(s.Pos()), s, yieldStmt(s.Pos()))
					n++
					stats["yield_recv"]++
					continue
				}
			case *ast.DeferStmt:
				if lc, ok := lockCall(s.Call); ok {
					s.Call = lc
					n++
					stats["yield_lock_ops"]++
				}
			case *ast.SendStmt:
				out = append(out, yieldStmt(s.Pos()), s, yieldStmt(s.Pos()))
				n++
				stats["yield_send"]++
				continue
			case *ast.AssignStmt:
				if hasRecv(s) {
					out = append(out, yieldStmt(s.Pos()), s, yieldStmt(s.Pos()))
					n++
					stats["yield_recv"]++
					continue
				}
				for _, l := range s.Lhs {
					if isMapIndex(l) {
						out = append(out, &ast.ExprStmt{X: call("MapWrite", siteAt(s.Pos()))})
						n++
						stats["map_write_probes"]++
						break
					}
				}
			case *ast.SelectStmt:
				out = append(out, yieldStmt(s.Pos()))
				n++
				stats["yield_select"]++
			case *ast.GoStmt:
				// bind the arguments now (as the go statement does), run the call under the simulator's scheduler
				var pre []ast.Stmt
				args := make([]ast.Expr, len(s.Call.Args))
				for i, a := range s.Call.Args {
					name := fmt.Sprintf("goarg%d__sim", i)
					pre = append(pre, &ast.AssignStmt{Lhs: []ast.Expr{ast.NewIdent(name)}, Tok: token.DEFINE, Rhs: []ast.Expr{a}})
					args[i] = ast.NewIdent(name)
				}
				inner := &ast.CallExpr{Fun: s.Call.Fun, Args: args, Ellipsis: s.Call.Ellipsis}
				goCall := &ast.ExprStmt{X: call("Go", siteAt(s.Pos()), &ast.FuncLit{Type: &ast.FuncType{Params: &ast.FieldList{}}, Body: &ast.BlockStmt{List: []ast.Stmt{&ast.ExprStmt{X: inner}}}})}
				out = append(out, &ast.BlockStmt{List: append(pre, goCall)})
				n++
				stats["yield_go"]++
				continue
			}
			out = append(out, st)
		}
		return out
	}

	// identifiers drawn from crypto/rand become a deterministic sequence under the scheduler (they key maps whose
	// iteration order is seeded)
	isNewID := func(e ast.Expr) (*ast.CallExpr, bool) {
		c, ok := e.(*ast.CallExpr)
		if !ok || len(c.Args) != 0 {
			return nil, false
		}
		sel, ok := c.Fun.(*ast.SelectorExpr)
		if !ok || sel.Sel.Name != "NewID" {
			return nil, false
		}
		pk, ok := sel.X.(*ast.Ident)
		return c, ok && pk.Name == "rpc"
	}
	ast.Inspect(f, func(node ast.Node) bool {
		switch x := node.(type) {
		case *ast.KeyValueExpr:
			if c, ok := isNewID(x.Value); ok {
				x.Value = call("ID", c)
				n++
				stats["rpc_ids"]++
			}
		case *ast.AssignStmt:
			for i, rhs := range x.Rhs {
				if c, ok := isNewID(rhs); ok {
					x.Rhs[i] = call("ID", c)
					n++
					stats["rpc_ids"]++
				}
			}
		}
		return true
	})
	ast.Inspect(f, func(node ast.Node) bool {
		switch x := node.(type) {
		case *ast.BlockStmt:
			x.List = rewriteList(x.List)
		case *ast.CaseClause:
			x.Body = rewriteList(x.Body)
		case *ast.CommClause:
			x.Body = append([]ast.Stmt{yieldStmt(x.Pos())}, rewriteList(x.Body)...)
			n++
		case *ast.RangeStmt:
			if tv, ok := info.Types[x.X]; ok && tv.Type != nil {
				if _, isChan := tv.Type.Underlying().(*types.Chan); isChan && x.Body != nil {
					x.Body.List = append([]ast.Stmt{yieldStmt(x.Pos())}, x.Body.List...)
					n++
					stats["yield_range_chan"]++
				}
			}
		}
		return true
	})
	n += rewriteSelects(fset, f, site, stats)
	n += rewriteGuardedWrites(fset, f, info, site, stats)
	return n
}

// rewriteGuardedWrites: `x.conn.WriteMessage(...)` (WriteJSON, WriteControl, NextWriter, Close) where x is a struct with
// the fields `conn` and `mux` becomes `simrt.Guarded(x.mux, site, x.conn).WriteMessage(...)`: a probe that the writer
// holds the mutex which serialises writers of that connection.
func rewriteGuardedWrites(fset *token.FileSet, f *ast.File, info *types.Info, site string, stats map[string]int) int {
	n := 0
	hasField := func(t types.Type, name string) (types.Type, bool) {
		if p, ok := t.(*types.Pointer); ok {
			t = p.Elem()
		}
		st, ok := t.Underlying().(*types.Struct)
		if !ok {
			return nil, false
		}
		for i := 0; i < st.NumFields(); i++ {
			if st.Field(i).Name() == name {
				return st.Field(i).Type(), true
			}
		}
		return nil, false
	}
	ast.Inspect(f, func(node ast.Node) bool {
		c, ok := node.(*ast.CallExpr)
		if !ok {
			return true
		}
		m, ok := c.Fun.(*ast.SelectorExpr)
		if !ok {
			return true
		}
		switch m.Sel.Name {
		case "WriteMessage", "WriteJSON", "WriteControl", "NextWriter", "WritePreparedMessage":
		default:
			return true
		}
		inner, ok := m.X.(*ast.SelectorExpr)
		if !ok || inner.Sel.Name != "conn" {
			return true
		}
		tv, ok := info.Types[inner.X]
		if !ok || tv.Type == nil {
			return true
		}
		mt, ok := hasField(tv.Type, "mux")
		if !ok {
			return true
		}
		var mux ast.Expr = &ast.SelectorExpr{X: inner.X, Sel: ast.NewIdent("mux")}
		if _, isPtr := mt.(*types.Pointer); !isPtr {
			mux = &ast.UnaryExpr{Op: token.AND, X: mux}
		}
		siteLit := &ast.BasicLit{Kind: token.STRING, Value: strconv.Quote(fmt.Sprintf("%s:%d", site, fset.Position(c.Pos()).Line))}
		m.X = &ast.CallExpr{Fun: &ast.SelectorExpr{X: ast.NewIdent("simrt__"), Sel: ast.NewIdent("Guarded")}, Args: []ast.Expr{mux, siteLit, inner}}
		n++
		stats["guarded_connection_writes"]++
		return true
	})
	return n
}

// rewriteSelects turns every (unlabelled) select statement into a simrt.Select call followed by a switch over the
// chosen clause, so that the choice among several ready cases is the scheduler's and not the runtime's:
//
//	select { case v, ok := <-a: A; case b <- x: B; default: D }
//	->
//	{ c0 := a; c1 := b; sel, rv, ok_ := simrt.Select(site, true, simrt.RecvCase(c0), simrt.SendCase(c1, x))
//	  switch sel { case 0: v, ok := simrt.RecvVal(c0, rv), ok_; A; case 1: B; case 2: D } }
//
// break inside a clause leaves the switch exactly as it left the select; no loop is introduced.
func rewriteSelects(fset *token.FileSet, f *ast.File, site string, stats map[string]int) int {
	n := 0
	ctr := 0
	call := func(fn string, args ...ast.Expr) *ast.CallExpr {
		return &ast.CallExpr{Fun: &ast.SelectorExpr{X: ast.NewIdent("simrt__"), Sel: ast.NewIdent(fn)}, Args: args}
	}
	unparen := func(e ast.Expr) ast.Expr {
		for {
			p, ok := e.(*ast.ParenExpr)
			if !ok {
				return e
			}
			e = p.X
		}
	}
	recvOf := func(e ast.Expr) (ast.Expr, bool) {
		u, ok := unparen(e).(*ast.UnaryExpr)
		if !ok || u.Op != token.ARROW {
			return nil, false
		}
		return u.X, true
	}
	one := func(sel *ast.SelectStmt) ast.Stmt {
		ctr++
		id := func(s string) *ast.Ident { return ast.NewIdent(fmt.Sprintf("%s%d__sim", s, ctr)) }
		var pre []ast.Stmt
		var cases []ast.Expr
		var clauses []ast.Stmt
		var deflt *ast.CommClause
		k := 0
		for _, c := range sel.Body.List {
			cc := c.(*ast.CommClause)
			if cc.Comm == nil {
				deflt = cc
				continue
			}
			chName := ast.NewIdent(fmt.Sprintf("selch%d_%d__sim", ctr, k))
			var head []ast.Stmt
			switch cm := cc.Comm.(type) {
			case *ast.SendStmt:
				pre = append(pre, &ast.AssignStmt{Lhs: []ast.Expr{chName}, Tok: token.DEFINE, Rhs: []ast.Expr{cm.Chan}})
				cases = append(cases, call("SendCase", chName, cm.Value))
			case *ast.ExprStmt:
				ch, ok := recvOf(cm.X)
				if !ok {
					return nil
				}
				pre = append(pre, &ast.AssignStmt{Lhs: []ast.Expr{chName}, Tok: token.DEFINE, Rhs: []ast.Expr{ch}})
				cases = append(cases, call("RecvCase", chName))
			case *ast.AssignStmt:
				if len(cm.Rhs) != 1 {
					return nil
				}
				ch, ok := recvOf(cm.Rhs[0])
				if !ok {
					return nil
				}
				pre = append(pre, &ast.AssignStmt{Lhs: []ast.Expr{chName}, Tok: token.DEFINE, Rhs: []ast.Expr{ch}})
				cases = append(cases, call("RecvCase", chName))
				rhs := []ast.Expr{call("RecvVal", chName, id("selrv"))}
				if len(cm.Lhs) == 2 {
					rhs = append(rhs, id("selok"))
				}
				head = append(head, &ast.AssignStmt{Lhs: cm.Lhs, Tok: cm.Tok, Rhs: rhs})
			default:
				return nil
			}
			clauses = append(clauses, &ast.CaseClause{List: []ast.Expr{&ast.BasicLit{Kind: token.INT, Value: strconv.Itoa(k)}}, Body: append(head, cc.Body...)})
			k++
		}
		hasDefault := "false"
		if deflt != nil {
			hasDefault = "true"
			clauses = append(clauses, &ast.CaseClause{List: []ast.Expr{&ast.BasicLit{Kind: token.INT, Value: strconv.Itoa(k)}}, Body: deflt.Body})
		}
		siteLit := &ast.BasicLit{Kind: token.STRING, Value: strconv.Quote(fmt.Sprintf("%s:%d", site, fset.Position(sel.Pos()).Line))}
		args := append([]ast.Expr{siteLit, ast.NewIdent(hasDefault)}, cases...)
		stmts := append(pre,
			&ast.AssignStmt{Lhs: []ast.Expr{id("selidx"), id("selrv"), id("selok")}, Tok: token.DEFINE, Rhs: []ast.Expr{call("Select", args...)}},
			&ast.AssignStmt{Lhs: []ast.Expr{ast.NewIdent("_"), ast.NewIdent("_")}, Tok: token.ASSIGN, Rhs: []ast.Expr{id("selrv"), id("selok")}},
			&ast.SwitchStmt{Tag: id("selidx"), Body: &ast.BlockStmt{List: clauses}},
		)
		return &ast.BlockStmt{List: stmts}
	}
	rewrite := func(list []ast.Stmt) []ast.Stmt {
		for i, st := range list {
			if sel, ok := st.(*ast.SelectStmt); ok {
				if r := one(sel); r != nil {
					list[i] = r
					n++
					stats["select_rewritten"]++
				} else {
					stats["select_left"]++
				}
			}
		}
		return list
	}
	ast.Inspect(f, func(node ast.Node) bool {
		switch x := node.(type) {
		case *ast.BlockStmt:
			x.List = rewrite(x.List)
		case *ast.CaseClause:
			x.Body = rewrite(x.Body)
		case *ast.CommClause:
			x.Body = rewrite(x.Body)
		}
		return true
	})
	return n
}
