module instr

go 1.26.8
