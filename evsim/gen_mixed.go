package evsim

import (
	"encoding/hex"
	"fmt"
	"math/rand/v2"
)

// Arm couples a script generator with an interpreter.
type Arm struct {
	Gen func(rng *rand.Rand, seed uint64, tier string) *Script
	Run func(rt *Runtime, r *RunCtx, s *Script)
}

// Arms by property id.
var Arms = map[string]*Arm{}

func pick[T any](rng *rand.Rand, xs ...T) T { return xs[rng.IntN(len(xs))] }

func hexWord(v interface{}) string { return hex.EncodeToString(Word(v)) }

// mixedGenesis: default chain plus one labelled genesis contract per template.
func mixedGenesis(rng *rand.Rand) (GenesisSpec, map[string]int) {
	g := DefaultGenesisSpec()
	g.Validators = 1 + rng.IntN(3)
	g.Wallets = 4 + rng.IntN(5)
	g.MaxGas = pick(rng, int64(40_000_000), 40_000_000, 2_000_000, 400_000, -1)
	g.BaseFee = pick(rng, "1000000000", "1000000000", "7", "0", "1000000000000")
	g.MinGasPrice = pick(rng, "0", "0", "0.5", "1000000000", "3")
	g.Erc20Native = rng.IntN(2) == 0
	g.StakingCpc = rng.IntN(2) == 0
	g.NoInflation = rng.IntN(3) == 0
	labels := map[string]int{}
	for i, name := range TemplateNames {
		c := GenContract{Addr: GenesisContractAddr(i).Hex(), Code: hex.EncodeToString(templates[name]())}
		switch name {
		case "clear":
			c.Storage = map[string]string{}
			for s := 1; s <= 8; s++ {
				c.Storage[fmt.Sprintf("0x%064x", s)] = fmt.Sprintf("0x%064x", 0xff)
			}
		case "fwd":
			c.Storage = fwdStorage()
		case "rep":
			c.Balance = "4000000000000000000"
		case "vw":
			c.Balance = "700000000000000000000"
		case "sd", "proxy", "factory":
			c.Balance = "5000000000000000000"
		case "sd2", "sd3":
			c.Balance = "1000"
			c.Bal2 = "777"
		}
		g.Contracts = append(g.Contracts, c)
		labels[name] = i
	}
	return g, labels
}

func genMixedOps(rng *rand.Rand, g *GenesisSpec, nBlocks, maxTx int) []Op {
	var ops []Op
	ops = append(ops, Op{K: "block", Dt: 5})
	for b := 0; b < nBlocks; b++ {
		n := rng.IntN(maxTx + 1)
		for i := 0; i < n; i++ {
			ops = append(ops, genMixedTx(rng, g))
		}
		if rng.IntN(6) == 0 {
			// a crowded tail: log-emitting Ethereum txs followed by Cosmos txs, so that with a small block gas limit the
			// block's gas runs out at or after the last Ethereum tx
			for i, k := 0, 1+rng.IntN(5); i < k; i++ {
				ops = append(ops, Op{K: "eth", W: rng.IntN(g.Wallets), To: "c:logs", Data: hexWord(pick(rng, 1, 2, 3, 7)), Gas: "i+200000", Price: "b+1", Tip: "1", Typ: pick(rng, 0, 2)})
			}
			for i, k := 0, 1+rng.IntN(5); i < k; i++ {
				w := rng.IntN(g.Wallets)
				ops = append(ops, Op{K: "bank", W: w, To: fmt.Sprintf("w%d", (w+1)%g.Wallets), Val: "1", Denom: BaseDenom, Price: "b+5", Gas: pick(rng, "200000", "120000")})
			}
		}
		blk := Op{K: "block", Dt: pick(rng, 1, 5, 5, 6, 60), Prop: rng.IntN(4), Byz: rng.IntN(4) == 0}
		ops = append(ops, blk)
		if rng.IntN(12) == 0 {
			ops = append(ops, Op{K: "jump", Dt: pick(rng, 3600, 86400, 30*86400)})
		}
	}
	ops = append(ops, Op{K: "block", Dt: 5})
	return ops
}

func genMixedTx(rng *rand.Rand, g *GenesisSpec) Op {
	w := rng.IntN(g.Wallets)
	other := fmt.Sprintf("w%d", (w+1+rng.IntN(g.Wallets-1))%g.Wallets)
	typ := pick(rng, 0, 0, 1, 2, 2)
	price := pick(rng, "b", "b+1", "b+1000000000", "b*2", "b*3")
	tip := pick(rng, "0", "1", "1000000000", "5")
	op := Op{K: "eth", W: w, Typ: typ, Price: price, Tip: tip}
	if typ >= 1 && rng.IntN(2) == 0 {
		op.Mut = "al"
	}
	switch k := rng.IntN(100); {
	case k < 18: // plain transfer, assorted unused gas
		op.To = other
		op.Val = pick(rng, "0", "1", "12345", "1000000000000000000")
		op.Gas = pick(rng, "i", "i+1", "i+1000", "i+79000", "i+500000")
		if rng.IntN(5) == 0 {
			op.To = fmt.Sprintf("fresh%d", rng.IntN(4))
		}
		if rng.IntN(12) == 0 {
			op.To = pick(rng, "mod:evm", "mod:evm", "mod:fee_collector", "mod:distribution") // value sent to a module account
		}
		if rng.IntN(10) == 0 {
			op.To = fmt.Sprintf("val%d", rng.IntN(maxInt(g.Validators, 1))) // a validator's operator account: the coinbase of the blocks it proposes
		}
	case k < 26:
		op.To, op.Data, op.Gas = "c:store", hexWord(rng.IntN(5)), pick(rng, "i+50000", "i+100000", "i+30000")
		op.Val = pick(rng, "0", "0", "7")
	case k < 36:
		op.To, op.Data, op.Gas = "c:logs", hexWord(pick(rng, 0, 1, 2, 3, 7, 20)), "i+200000"
	case k < 42:
		op.To, op.Gas, op.Val = "c:revert", pick(rng, "i+60000", "i+100000"), pick(rng, "0", "5")
	case k < 46:
		op.To, op.Gas = "c:invalid", pick(rng, "i+30000", "i+90000")
	case k < 50:
		op.To, op.Gas = "c:burn", pick(rng, "i+30000", "i+120000")
	case k < 58: // refunds: set or clear 1..8 slots
		op.To, op.Gas = "c:clear", "i+300000"
		op.Data = hexWord(1+rng.IntN(8)) + hexWord(pick(rng, 0, 0, 0, 5, 0xff))
	case k < 60 && rng.IntN(3) == 0: // one contract self-destructs several times in one tx while value keeps arriving
		op.To, op.Gas = "c:rep", "i+600000"
		op.Data = "{c:" + pick(rng, "sd", "sd2", "sd3") + "}" + hexWord(pick(rng, 0, 1000, 1000000)) + hexWord(pick(rng, 2, 3, 4)) + "{" + pick(rng, other, "c:store", "c:rep") + "}"
	case k < 62:
		op.To, op.Gas = "c:sd", "i+80000"
		op.Data = "{" + pick(rng, other, fmt.Sprintf("fresh%d", rng.IntN(4)), "c:store", "mod:evm", fmt.Sprintf("val%d", rng.IntN(maxInt(g.Validators, 1)))) + "}"
		op.Val = pick(rng, "0", "3")
	case k < 68:
		op.To, op.Gas = "c:factory", "i+400000"
		op.Data = hexWord(pick(rng, 0, 0, 1))
		op.Val = pick(rng, "0", "10")
	case k < 74: // creation tx
		op.Init = pick(rng, "store", "logs", "clear", "sd", "revert")
		if rng.IntN(5) == 0 {
			// creations that succeed and leave no code: empty init code, a constructor that stops, logs, or self-destructs
			op.Init, op.Data = "rawinit", pick(rng, "", "00", "60016000a0", "6000ff", "60006000f3")
		}
		op.Gas = pick(rng, "i+300000", "i+600000", "i+20000")
		if rng.IntN(8) == 0 {
			op.Typ, op.Mut = 0, "unprotected" // a creation signed without EIP-155 protection
		}
		op.Val = pick(rng, "0", "0", "9", "999999999999999999999999999")
		if rng.IntN(4) == 0 {
			// the address the contract will get already holds coins of another denomination only
			return Op{K: "bank", W: (w + 1) % g.Wallets, To: fmt.Sprintf("cr:%d:%d", w, rng.IntN(2)), Val: pick(rng, "1", "1000000"), Denom: "utwo", Price: "b+1", Gas: "200000"}
		}
	case k < 76 && rng.IntN(2) == 0: // write a slot at an end of the key space, possibly self-destructing afterwards
		return genSlotWrite(rng, w)
	case k < 78: // call something created earlier in the run
		op.To = fmt.Sprintf("n:%d", rng.IntN(40))
		op.Data = hexWord(rng.IntN(9)) + hexWord(0)
		op.Gas = "i+200000"
	case k < 80:
		op.To, op.Gas = "c:proxy", "i+200000"
		op.Data = "{" + pick(rng, other, other, fmt.Sprintf("val%d", rng.IntN(maxInt(g.Validators, 1)))) + "}" + hexWord(pick(rng, 0, 1, 1000))
	case k < 83: // stale / future nonce
		op.To, op.Gas = other, "i+1000"
		op.Nonce = pick(rng, "cur-1", "cur+1", "cur+5")
		op.Mut = "nonce"
	case k < 85: // below base fee
		op.To, op.Gas, op.Price, op.Tip = other, "i", pick(rng, "b-1", "b/2", "0"), "0"
		op.Mut = "lowfee"
	case k < 87: // below intrinsic
		op.To, op.Gas = other, pick(rng, "i-1", "i-1000", "20999")
		op.Mut = "lowgas"
	case k < 89: // value above balance: consensus error inside the transition
		op.To, op.Gas, op.Val = other, pick(rng, "i+1000", "i+1000", "i+3000000", "i+50000000"), "999999999999999999999999999" // (also with a gas limit above the block gas limit)
	case k < 91:
		op.To, op.Gas = other, "i+1000"
		op.Mut = pick(rng, "chainid", "unprotected", "wrongkey", "wrongfrom")
	case k < 95:
		return Op{K: "bank", W: w, To: other, Val: pick(rng, "1", "1000", "0"), Denom: pick(rng, BaseDenom, "utwo"), Price: pick(rng, "b", "b+5", "b*2"), Gas: pick(rng, "200000", "120000", "60000")}
	case k < 97:
		bz := make([]byte, 1+rng.IntN(120))
		for i := range bz {
			bz[i] = byte(rng.IntN(256))
		}
		return Op{K: "raw", Hex: hex.EncodeToString(bz)}
	default:
		return Op{K: "replay", Ref: rng.IntN(1000)}
	}
	if rng.IntN(6) == 0 {
		op.Via = "check"
	}
	return op
}

// genSlotWrite: a write to slot 0 / 1 / 2^255 / 2^256-2 / 2^256-1 of the slot-writer contract (the genesis one or
// one created earlier), possibly followed by its self-destruct; or the creation of a fresh slot writer.
func genSlotWrite(rng *rand.Rand, w int) Op {
	if rng.IntN(5) == 0 {
		return Op{K: "eth", W: w, Init: "slotw", Gas: "i+300000", Price: "b+1", Tip: "1"}
	}
	key := pick(rng, "ffffffffffffffffffffffffffffffffffffffffffffffffffffffffffffffff", "ffffffffffffffffffffffffffffffffffffffffffffffffffffffffffffffff",
		"fffffffffffffffffffffffffffffffffffffffffffffffffffffffffffffffe", "8000000000000000000000000000000000000000000000000000000000000000", hexWord(0), hexWord(1))
	return Op{K: "eth", W: w, To: pick(rng, "c:slotw", "c:slotw", fmt.Sprintf("n:%d", rng.IntN(30))), Data: key + hexWord(pick(rng, 0x63, 1, 0)) + hexWord(pick(rng, 0, 0, 0, 1)),
		Gas: "i+200000", Price: "b+1", Tip: "1"}
}

func genMixed(prop string) func(rng *rand.Rand, seed uint64, tier string) *Script {
	return func(rng *rand.Rand, seed uint64, tier string) *Script {
		g, _ := mixedGenesis(rng)
		s := &Script{Prop: prop, Seed: seed, Gen: g, Extra: map[string]string{"exact_sender": "1"}}
		s.WallOffsetS = pick(rng, int64(0), 86400*365*30, -86400*365)
		s.Node = NodeOpts{MinGasPrices: pick(rng, "", "", "1wei", "2000000000wei"), IAVLCache: pick(rng, 0, -1, 100)}
		s.Ops = genMixedOps(rng, &s.Gen, 3+rng.IntN(8), 8)
		if prop == "C06" {
			// the other way an Ethereum message could reach execution: wrapped in Cosmos-lane shapes (nested in MsgExec,
			// beside other messages, with odd envelopes), where no Ethereum-lane check would have looked at it
			for i, n := 0, 1+rng.IntN(6); i < n; i++ {
				op := Op{K: "lane", W: rng.IntN(s.Gen.Wallets), Mut: laneRecipes[rng.IntN(len(laneRecipes))], Ref: rng.IntN(8), Typ: rng.IntN(6), Via: pick(rng, "", "", "", "check")}
				at := 1 + rng.IntN(len(s.Ops)-1)
				s.Ops = append(s.Ops[:at], append([]Op{op}, s.Ops[at:]...)...)
			}
		}
		return s
	}
}

func runMixed(rt *Runtime, r *RunCtx, s *Script) {
	rt.Bubble(s.WallOffsetS, func() { runMixedIn(r, s) })
}

func runMixedIn(r *RunCtx, s *Script) *World {
	w := NewWorld(r, s)
	for i, name := range TemplateNames {
		w.Labels[name] = GenesisContractAddr(i)
	}
	checkInit(r, w.C)
	for i := range s.Ops {
		w.Exec(i, &s.Ops[i])
	}
	return w
}

func init() {
	for _, p := range []string{"C04", "C05", "C13", "C06"} {
		Arms[p] = &Arm{Gen: genMixed(p), Run: runMixed}
	}
}

func maxInt(a, b int) int {
	if a > b {
		return a
	}
	return b
}
