package evsim

import (
	"context"
	"encoding/json"
	"fmt"
	"math/big"
	"math/rand/v2"
	"net"
	"net/http"
	"sort"
	"strings"
	"sync"
	"sync/atomic"
	"time"

	"evsim/simrt"

	"cosmossdk.io/log"
	rpcbackend "github.com/EscanBE/evermint/v12/rpc/backend"
	rpcfilters "github.com/EscanBE/evermint/v12/rpc/namespaces/ethereum/eth/filters"
	tmjson "github.com/cometbft/cometbft/libs/json"
	coretypes "github.com/cometbft/cometbft/rpc/core/types"
	cmtjrpcclient "github.com/cometbft/cometbft/rpc/jsonrpc/client"
	jsonrpctypes "github.com/cometbft/cometbft/rpc/jsonrpc/types"
	cmttypes "github.com/cometbft/cometbft/types"
	abci "github.com/cometbft/cometbft/abci/types"
	"github.com/cosmos/cosmos-sdk/server"
	"github.com/ethereum/go-ethereum/common"
	ethfilters "github.com/ethereum/go-ethereum/eth/filters"
	"github.com/ethereum/go-ethereum/rpc"
	"github.com/gorilla/websocket"
)

// ---- C20, schedule arm 2: the filter system (PublicFilterAPI + EventSystem + event bus) -------------------
//
// The real PublicFilterAPI / EventSystem run over a real CometBFT WSClient whose Dialer returns one end of a
// net.Pipe; the other end is an in-bubble websocket server speaking the three JSON-RPC methods the event
// system uses and pushing NewBlockHeader / Tx events of a chain the consensus stub decided beforehand (incl.
// blocks a byzantine proposer filled with zero-message and undecodable transactions). Client actors install,
// poll and uninstall filters while events flow; one PRNG value decides every interleaving of the instrumented
// goroutines (event loop, consumer, per-filter goroutines, timeout loop, actors).

type pipeListener struct {
	conns chan net.Conn
	once  sync.Once
	done  chan struct{}
}

func (l *pipeListener) Accept() (net.Conn, error) {
	select {
	case c := <-l.conns:
		return c, nil
	case <-l.done:
		return nil, net.ErrClosed
	}
}
func (l *pipeListener) Close() error   { l.once.Do(func() { close(l.done) }); return nil }
func (l *pipeListener) Addr() net.Addr { return &net.TCPAddr{IP: net.IPv4(127, 0, 0, 1), Port: 26657} }

type wsSub struct {
	id    jsonrpctypes.JSONRPCIntID // id of the subscribe request (CometBFT tags every event with it)
	query string                    // the query exactly as the client spelled it
}

func normQuery(q string) string { return strings.ReplaceAll(q, " ", "") }

// wsStub is the CometBFT websocket endpoint of the simulation.
type wsStub struct {
	mu   sync.Mutex
	conn *websocket.Conn
	subs map[string]wsSub // normalised query -> subscription
	lis  *pipeListener
	srv  *http.Server
	pushed, notSubscribed int
	reqs                  []string
	out                   chan []byte
}

func newWSStub() *wsStub {
	st := &wsStub{subs: map[string]wsSub{}, out: make(chan []byte, 4096), lis: &pipeListener{conns: make(chan net.Conn, 4), done: make(chan struct{})}}
	up := websocket.Upgrader{CheckOrigin: func(*http.Request) bool { return true }}
	mux := http.NewServeMux()
	mux.HandleFunc("/websocket", func(w http.ResponseWriter, r *http.Request) {
		c, err := up.Upgrade(w, r, nil)
		if err != nil {
			return
		}
		st.mu.Lock()
		st.conn = c
		st.mu.Unlock()
		// one writer per connection; everything that blocks is a channel or the pipe (durable for synctest), never a mutex
		go func() {
			for msg := range st.out {
				if c.WriteMessage(websocket.TextMessage, msg) != nil {
					return
				}
			}
		}()
		for {
			_, msg, err := c.ReadMessage()
			if err != nil {
				return
			}
			var req struct {
				ID     json.RawMessage `json:"id"`
				Method string          `json:"method"`
				Params struct {
					Query string `json:"query"`
				} `json:"params"`
			}
			st.mu.Lock()
			st.reqs = append(st.reqs, string(msg))
			st.mu.Unlock()
			if json.Unmarshal(msg, &req) != nil {
				continue
			}
			var idn int
			_ = json.Unmarshal(req.ID, &idn)
			st.mu.Lock()
			switch req.Method {
			case "subscribe":
				st.subs[normQuery(req.Params.Query)] = wsSub{jsonrpctypes.JSONRPCIntID(idn), req.Params.Query}
			case "unsubscribe":
				delete(st.subs, normQuery(req.Params.Query))
			case "unsubscribe_all":
				st.subs = map[string]wsSub{}
			}
			// the acknowledgement: an empty result (the event system skips responses without a query)
			resp := fmt.Sprintf(`{"jsonrpc":"2.0","id":%d,"result":{}}`, idn)
			st.mu.Unlock()
			st.enqueue([]byte(resp))
		}
	})
	st.srv = &http.Server{Handler: mux}
	go func() { _ = st.srv.Serve(st.lis) }()
	return st
}

func (st *wsStub) dial(string, string) (net.Conn, error) {
	c1, c2 := net.Pipe()
	st.lis.conns <- c2
	return c1, nil
}

// push sends an event to the client if somebody subscribed to its query.
func (st *wsStub) push(query string, data cmttypes.TMEventData, events map[string][]string) bool {
	st.mu.Lock()
	defer st.mu.Unlock()
	sub, ok := st.subs[normQuery(query)]
	if !ok || st.conn == nil {
		st.notSubscribed++
		return false
	}
	st.pushed++
	res, err := tmjson.Marshal(coretypes.ResultEvent{Query: sub.query, Data: data, Events: events})
	if err != nil {
		panic(err)
	}
	msg, _ := json.Marshal(jsonrpctypes.RPCResponse{JSONRPC: "2.0", ID: sub.id, Result: res})
	return st.enqueue(msg)
}

func (st *wsStub) enqueue(msg []byte) bool {
	select {
	case st.out <- msg:
		return true
	default:
		return false // a saturated link drops events, as the real bus does
	}
}

func (st *wsStub) close() {
	st.mu.Lock()
	if st.conn != nil {
		_ = st.conn.Close()
	}
	st.mu.Unlock()
	_ = st.srv.Close()
	_ = st.lis.Close()
}

const (
	qHeader = "tm.event='NewBlockHeader'"
	qTx     = "tm.event='Tx'"
	qEvm    = "tm.event='Tx' AND message.module='evm'"
)

func runFilterScenario(rt *Runtime, r *RunCtx, s *Script) {
	var sc *simrt.Scheduler
	reported := false
	var actorsTotal int
	var done atomic.Int32
	defer func() {
		// the bubble ended in "all goroutines are blocked": every goroutine of the RPC machinery and every client waits
		// for something that will never happen. That is a verdict about the system, not an infrastructure failure.
		if sc == nil || reported || !strings.Contains(rt.Infra, "all goroutines in bubble are blocked") {
			return
		}
		rt.Infra = ""
		simrt.Reset()
		SetMapOrder("", 0)
		r.Count("o:filter_scenarios")
		for _, p := range sc.Panics {
			r.Violate("C20", "goroutine_panic", map[string]string{"component": "filters", "site": panicSite(&PanicInfo{Stack: p.Stack, Value: p.Value}), "panic": panicKind(p.Value)}, "goroutine %s panicked: %s", p.Goroutine, p.Value)
		}
		if len(sc.Panics) == 0 {
			r.Violate("C20", "deadlock_in_filters", nil, "every goroutine of the filter system and every client is blocked for ever (%d of %d clients finished); waiting for a mutex: %v", done.Load(), actorsTotal, sc.Waiting())
		}
	}()
	rt.Bubble(0, func() {
		// 1. a chain decided beforehand (no scheduler yet): its blocks are what the stub will publish
		w := NewWorld(r, s)
		for i, name := range TemplateNames {
			w.Labels[name] = GenesisContractAddr(i)
		}
		checkInit(r, w.C)
		var fops []Op
		for i := range s.Ops {
			if s.Ops[i].K == "flt" {
				fops = append(fops, s.Ops[i])
				continue
			}
			w.Exec(i, &s.Ops[i])
		}
		if w.C.Halted || len(w.C.Records) == 0 {
			return
		}
		st14 := w.c14()
		sctx := server.NewDefaultContext()
		sctx.Viper.Set("telemetry.global-labels", []interface{}{})
		sctx.Viper.Set("json-rpc.filter-cap", 200)
		sctx.Viper.Set("json-rpc.logs-cap", 10000)
		sctx.Viper.Set("json-rpc.block-range-cap", 10000)
		idx, _ := w.twinIndex(0)
		be := rpcbackend.NewBackend(sctx, log.NewNopLogger(), st14.cctx, idx)

		// 2. the RPC machinery under the scheduler
		SetMapOrder(pick(newRng(s.Seed), "asc", "desc", "shuffle"), s.Seed)
		defer SetMapOrder("", 0)
		maxSteps := 30000
		simrt.TraceOn = r.KeepLog
		sc = simrt.Start(s.Seed, maxSteps)
		stub := newWSStub()
		ws, err := cmtjrpcclient.NewWS("tcp://127.0.0.1:26657", "/websocket", cmtjrpcclient.MaxReconnectAttempts(0), cmtjrpcclient.PingPeriod(0))
		if err != nil {
			rt.Infra = "NewWS: " + err.Error()
			sc.Stop()
			return
		}
		ws.Dialer = stub.dial
		if err := ws.Start(); err != nil {
			rt.Infra = "WSClient.Start: " + err.Error()
			sc.Stop()
			return
		}
		api := rpcfilters.NewPublicAPI(log.NewNopLogger(), st14.cctx, ws, be)

		actors := map[int][]Op{}
		for _, op := range fops {
			actors[op.W] = append(actors[op.W], op)
		}
		ids := make([]int, 0, len(actors))
		for id := range actors {
			ids = append(ids, id)
		}
		sort.Ints(ids)
		doneCh := make(chan struct{}, 64)
		actorsTotal = len(ids)
		var headersSeen atomic.Int64
		var orderViol atomic.Int32
		published := map[common.Hash]int{}
		var pubMu sync.Mutex
		guard := func(name string, f func()) {
			defer func() {
				if x := recover(); x != nil {
					pi := &PanicInfo{Value: fmt.Sprint(x), Stack: string(debugStack())}
					r.Violate("C20", "rpc_panic", map[string]string{"where": name, "site": panicSite(pi)}, "%s panicked: %v", name, x)
				}
			}()
			f()
		}
		for _, id := range ids {
			ops := actors[id]
			id := id
			simrt.Go(fmt.Sprintf("actor%d", id), func() {
				defer func() { done.Add(1); doneCh <- struct{}{} }()
				var mine []rpc.ID
				lastIdx := map[rpc.ID]int{}
				next := 0 // next block to publish (publisher actors)
				for _, op := range ops {
					simrt.Yield("actor:op")
					switch op.Mut {
					case "publish": // the chain advances: header event, then one Tx event per transaction
						if next >= len(w.C.Records) {
							continue // the chain has no further block
						}
						rec := w.C.Records[next]
						next++
						if rec.Res == nil {
							continue
						}
						pubMu.Lock()
						if _, ok := published[common.BytesToHash(rec.Block.Hash())]; !ok {
							published[common.BytesToHash(rec.Block.Hash())] = len(published)
						}
						pubMu.Unlock()
						stub.push(qHeader, cmttypes.EventDataNewBlockHeader{Header: rec.Block.Header}, nil)
						for i, tx := range rec.Req.Txs {
							var res abci.ExecTxResult
							if i < len(rec.Res.TxResults) {
								res = *rec.Res.TxResults[i]
							}
							data := cmttypes.EventDataTx{TxResult: abci.TxResult{Height: rec.Height, Index: uint32(i), Tx: tx, Result: res}}
							stub.push(qTx, data, nil)
							isEvm := false
							for _, e := range res.Events {
								if e.Type == "message" {
									for _, a := range e.Attributes {
										if a.Key == "module" && a.Value == "evm" {
											isEvm = true
										}
									}
								}
							}
							if isEvm {
								stub.push(qEvm, data, nil)
							}
						}
						simrt.Yield("actor:published")
					case "blockfilter":
						guard("eth_newBlockFilter", func() {
							fid := api.NewBlockFilter()
							if strings.HasPrefix(string(fid), "error") {
								r.Cross["c20:filter_install_error:"+errClass(string(fid))]++
							} else {
								r.Count("o:filters_installed")
							}
							mine = append(mine, fid)
						})
					case "pendingfilter":
						guard("eth_newPendingTransactionFilter", func() { mine = append(mine, api.NewPendingTransactionFilter()) })
					case "logfilter":
						guard("eth_newFilter", func() {
							crit := ethfilters.FilterCriteria{}
							switch op.Ref % 4 {
							case 1:
								crit.Addresses = []common.Address{w.Labels["logs"]}
							case 2:
								crit.Topics = [][]common.Hash{{common.BigToHash(big.NewInt(int64(op.Ref % 5)))}, {common.BigToHash(big.NewInt(0xabc))}}
							case 3:
								crit.FromBlock, crit.ToBlock = big.NewInt(1), big.NewInt(int64(1+op.Ref%6))
							}
							if id, err := api.NewFilter(crit); err == nil {
								mine = append(mine, id)
							}
						})
					case "changes":
						if len(mine) > 0 {
							fid := mine[op.Ref%len(mine)]
							guard("eth_getFilterChanges", func() {
								res, err := api.GetFilterChanges(fid)
								if err != nil {
									return
								}
								if hs, ok := res.([]common.Hash); ok {
									for _, h := range hs {
										pubMu.Lock()
										pi, known := published[h]
										pubMu.Unlock()
										if known {
											headersSeen.Add(1)
											if pi < lastIdx[fid] {
												orderViol.Add(1)
											}
											lastIdx[fid] = pi
										}
									}
								}
							})
						}
					case "filterlogs":
						if len(mine) > 0 {
							guard("eth_getFilterLogs", func() { _, _ = api.GetFilterLogs(context.Background(), mine[op.Ref%len(mine)]) })
						}
					case "getlogs":
						guard("eth_getLogs", func() {
							crit := ethfilters.FilterCriteria{FromBlock: big.NewInt(1), ToBlock: big.NewInt(int64(1 + op.Ref%8))}
							if op.Ref%2 == 1 {
								crit.Topics = [][]common.Hash{{}, {common.BigToHash(big.NewInt(0xabc))}, {common.BigToHash(big.NewInt(1))}}
							}
							_, _ = api.GetLogs(context.Background(), crit)
						})
					case "uninstall":
						if len(mine) > 0 {
							guard("eth_uninstallFilter", func() { api.UninstallFilter(mine[op.Ref%len(mine)]) })
						}
					case "sleep": // fake time passes (filter deadlines are 5 minutes)
						// durations around the 5-minute filter deadline line sleepers up with the timeout sweep and with the
						// deadline timers of filters created at the same fake instant
						secs := 1 + op.Ref%400
						switch op.Ref % 5 {
						case 0:
							secs = 300
						case 1:
							secs = pick(newRng(uint64(op.Ref)), 150, 299, 301, 600)
						}
						time.Sleep(time.Duration(secs) * time.Second)
						simrt.Yield("actor:woke")
					}
				}
			})
		}
		for i := 0; i < len(ids); i++ {
			<-doneCh
		}
		finished := int(done.Load()) == len(ids) && !sc.Exhausted
		// bounded liveness after the actors are done: a fresh block filter reports a freshly published header
		live, starvedCause := true, ""
		if finished {
			var fid rpc.ID
			guard("eth_newBlockFilter", func() { fid = api.NewBlockFilter() })
			rec := w.C.Records[len(w.C.Records)-1]
			got := false
			for k := 0; k < 30 && !got && !sc.Exhausted && !strings.HasPrefix(string(fid), "error"); k++ {
				if !stub.push(qHeader, cmttypes.EventDataNewBlockHeader{Header: rec.Block.Header}, nil) {
					// the filter exists, yet the node holds no CometBFT subscription that could feed it
					starvedCause = "no_comet_subscription_for_installed_filter"
				} else {
					starvedCause = "event_not_forwarded_to_filter"
				}
				time.Sleep(50 * time.Millisecond)
				simrt.Yield("root:probe")
				guard("eth_getFilterChanges", func() {
					if res, err := api.GetFilterChanges(fid); err == nil {
						if hs, ok := res.([]common.Hash); ok && len(hs) > 0 {
							got = true
						}
					}
				})
			}
			live = got || strings.HasPrefix(string(fid), "error")
		}
		reported = true
		digest, steps := sc.Digest(), sc.Step
		waitingAtEnd := sc.Waiting()
		_ = ws.Stop()
		stub.close()
		sc.Stop()
		r.SimSecs += 60
		r.Count("o:filter_scenarios")
		r.Add("o:filter_scheduler_steps", int64(steps))
		r.Add("o:filter_headers_reported", headersSeen.Load())
		if r.KeepLog {
			for _, q := range stub.reqs {
				fmt.Println("   ws request:", q)
			}
		}
		r.Add("o:filter_ws_requests", int64(len(stub.reqs)))
		r.Add("o:filter_events_pushed", int64(stub.pushed))
		r.Add("o:filter_events_without_subscriber", int64(stub.notSubscribed))
		r.State("fsched:" + digest[:16])
		r.Logf("filter scenario steps=%d digest=%s headers=%d finished=%v", steps, digest, headersSeen.Load(), finished)
		if r.KeepLog {
			r.LogLines = append(r.LogLines, sc.Trace...)
		}
		for _, p := range sc.Panics {
			r.Violate("C20", "goroutine_panic", map[string]string{"component": "filters", "site": panicSite(&PanicInfo{Stack: p.Stack, Value: p.Value}), "panic": panicKind(p.Value)}, "goroutine %s panicked: %s", p.Goroutine, p.Value)
		}
		seen := map[string]bool{}
		for _, f := range sc.Findings {
			if !seen[f] {
				seen[f] = true
				r.Violate("C20", "lock_discipline", map[string]string{"component": "filters", "what": strings.SplitN(f, "@", 2)[0]}, "%s: a shared map is written while the goroutine holds only a read lock", f)
			}
		}
		if finished && len(waitingAtEnd) > 0 {
			r.Violate("C20", "goroutine_waits_for_lock_forever", map[string]string{"component": "filters"}, "after all actors finished, goroutines still wait for a mutex nobody releases: %v", waitingAtEnd)
		}
		if orderViol.Load() > 0 {
			r.Violate("C20", "filter_changes_out_of_order", nil, "%d block hashes were reported by eth_getFilterChanges out of publishing order", orderViol.Load())
		}
		if !finished {
			if int(done.Load()) == len(ids) {
				// every client is done, yet goroutines of the RPC machinery kept running until the step budget was gone
				r.Violate("C20", "goroutine_never_stops_running", map[string]string{"component": "filters", "file": strings.SplitN(sc.HotSite(), ":", 2)[0]}, "all %d clients finished, but the filter system kept running for %d scheduler steps without pause; busiest scheduling point: %s", len(ids), maxSteps, sc.HotSite())
			} else {
				r.Violate("C20", "no_progress_in_filters", map[string]string{"kind": "actors_stuck"}, "%d of %d actors did not finish within %d scheduler steps (waiting for a mutex: %v)", len(ids)-int(done.Load()), len(ids), maxSteps, waitingAtEnd)
			}
		} else if !live {
			r.Violate("C20", "no_progress_in_filters", map[string]string{"kind": "fresh_filter_starved", "cause": starvedCause}, "after all actors finished a fresh block filter did not report a freshly published header (%s)", starvedCause)
		}
	})
}

func genFilterScript(rng *rand.Rand, seed uint64) *Script {
	g, _ := mixedGenesis(rng)
	g.MaxGas = 40_000_000
	g.BaseFee, g.MinGasPrice = "1000000000", "0"
	s := &Script{Prop: "C20", Seed: seed, Gen: g, Extra: map[string]string{"sched": "filters"}}
	ops := []Op{{K: "block", Dt: 5}}
	// bursty chains: many Ethereum txs per block, so that events of one topic arrive back to back while the topic's
	// publisher is still handing the previous one to a slow subscriber, and subscribers come and go meanwhile
	burst := rng.IntN(3) == 0
	for b, nb := 0, 2+rng.IntN(5); b < nb; b++ {
		n := rng.IntN(5)
		if burst {
			n = 4 + rng.IntN(6)
		}
		for i := 0; i < n; i++ {
			if burst && rng.IntN(4) > 0 {
				ops = append(ops, Op{K: "eth", W: rng.IntN(g.Wallets), To: "c:logs", Data: hexWord(1 + rng.IntN(3)), Gas: "i+200000", Price: "b+1"})
				continue
			}
			switch rng.IntN(6) {
			case 0:
				ops = append(ops, Op{K: "shape", Mut: pick(rng, "zero_msgs", "zero_msgs_eth_ext", "unknown_type_url", "no_auth_info")})
			case 1:
				ops = append(ops, Op{K: "badeth", W: rng.IntN(g.Wallets), Mut: pick(rng, "garbage_payload", "empty_payload", "truncated_payload"), Hex: randHex(rng, 20)})
			case 2:
				ops = append(ops, Op{K: "eth", W: rng.IntN(g.Wallets), To: "c:logs", Data: hexWord(1 + rng.IntN(4)), Gas: "i+200000", Price: "b+1"})
			default:
				ops = append(ops, genMixedTx(rng, &g))
			}
		}
		ops = append(ops, Op{K: "block", Dt: 5, Byz: true, Prop: rng.IntN(3)})
	}
	nActors := 2 + rng.IntN(4)
	for a := 0; a < nActors; a++ {
		publisher := a == 0
		for i, n := 0, 4+rng.IntN(10); i < n; i++ {
			op := Op{K: "flt", W: a, Ref: rng.IntN(40)}
			if publisher {
				op.Mut = pick(rng, "publish", "publish", "publish", "blockfilter", "changes")
			} else if burst {
				op.Mut = pick(rng, "blockfilter", "pendingfilter", "pendingfilter", "logfilter", "logfilter", "changes", "uninstall", "uninstall", "uninstall", "sleep")
			} else {
				op.Mut = pick(rng, "blockfilter", "pendingfilter", "logfilter", "changes", "changes", "changes", "filterlogs", "getlogs", "uninstall", "uninstall", "sleep")
			}
			ops = append(ops, op)
		}
	}
	s.Ops = ops
	return s
}
