package evsim

import (
	"fmt"
	"math/big"
	"math/rand/v2"

	sdkmath "cosmossdk.io/math"
)

func sdkmathFromBig(x *big.Int) sdkmath.Int { return sdkmath.NewIntFromBigInt(x) }

func pow2(n uint) string { return new(big.Int).Lsh(big.NewInt(1), n).String() }

// genC09: fee-market configurations over the whole parameter space the property quantifies over, with block
// fill levels on both sides of the gas target.
func genC09(rng *rand.Rand, seed uint64, tier string) *Script {
	g, _ := mixedGenesis(rng)
	g.Validators = 1 + rng.IntN(2)
	g.Wallets = 6
	g.WalletBalance = "1" + fmt.Sprintf("%070d", 0) // 1e70: fees at 2^200 per gas stay affordable
	g.MaxGas = pick(rng, int64(-1), 0, 1, 2, 3, 21000, 42000, 100_000, 1_000_000, 40_000_000)
	g.BaseFee = pick(rng, "0", "1", "7", "8", "1000000000", pow2(62), new(big.Int).Sub(new(big.Int).Lsh(big.NewInt(1), 63), big.NewInt(1)).String(), pow2(63), pow2(64), pow2(128), pow2(200))
	g.MinGasPrice = pick(rng, "0", "0", "0.5", "1", "1.9", "1000000000", "10000000000000000000", "1000000000000000000000000000000")
	g.NoInflation = true
	s := &Script{Prop: "C09", Seed: seed, Gen: g, Extra: map[string]string{}}
	ops := []Op{{K: "block", Dt: 5}}
	s.Gen.VotingPeriodS = 300
	if g.MaxGas < 0 || g.MaxGas >= 1_000_000 {
		// run-time parameter changes: a real governance proposal rewrites base fee and minimum gas price
		if rng.IntN(2) == 0 {
			ops = append(ops, Op{K: "msg", W: 1, Mut: "gov_feemarket_params", Val: pick(rng, "b", "b/2", "1", "0", "b*3"), Tip: pick(rng, "0", "1", "5000000000", "0.5", "123456789.5", "1000000000000"), Gas: "900000", Price: "b*2"})
			ops = append(ops, Op{K: "block", Dt: 5})
			for v := 0; v < g.Validators; v++ {
				ops = append(ops, Op{K: "msg", W: 1000 + v, Mut: "gov_vote", Ref: 1, Price: "b*2"})
			}
			ops = append(ops, Op{K: "block", Dt: 5}, Op{K: "jump", Dt: 400}, Op{K: "block", Dt: 5}, Op{K: "block", Dt: 5})
		}
	}
	nb := 4 + rng.IntN(10)
	for b := 0; b < nb; b++ {
		// fill level: 0 .. many transfers / heavy calls
		n := pick(rng, 0, 0, 1, 2, 4, 8, 14)
		for i := 0; i < n; i++ {
			w := rng.IntN(g.Wallets)
			op := Op{K: "eth", W: w, Typ: pick(rng, 0, 2), Price: pick(rng, "b", "b+1", "b*2"), Tip: pick(rng, "0", "1")}
			switch rng.IntN(6) {
			case 0:
				op.To, op.Gas, op.Data = "c:logs", "i+200000", hexWord(20)
			case 1:
				op.To, op.Gas = "c:burn", pick(rng, "i+100000", "i+900000")
			case 2: // price below the bound: must never execute
				op.To, op.Gas, op.Price, op.Tip = fmt.Sprintf("w%d", w+1), "i", pick(rng, "b-1", "b/2", "0", "1"), "0"
				op.Mut = "lowfee"
			case 3:
				return2 := Op{K: "bank", W: w, To: fmt.Sprintf("w%d", w+1), Val: "1", Price: pick(rng, "b", "b+1", "b-1", "0"), Gas: "200000", Typ: pick(rng, 0, 2), Tip: pick(rng, "0", "1")}
				ops = append(ops, return2)
				continue
			default:
				op.To, op.Gas, op.Val = fmt.Sprintf("w%d", w+1), pick(rng, "i", "i+30000"), "1"
			}
			ops = append(ops, op)
		}
		ops = append(ops, Op{K: "block", Dt: 5, Prop: rng.IntN(3), Byz: rng.IntN(3) == 0})
	}
	ops = append(ops, Op{K: "live", W: g.Wallets - 1})
	s.Ops = ops
	return s
}

func init() {
	Arms["C09"] = &Arm{Gen: genC09, Run: runMixed}
}
