package evsim

import (
	"bytes"
	"encoding/hex"
	"fmt"
	"math/big"
	"math/rand/v2"
	"sort"
	"strings"

	cpcabi "github.com/EscanBE/evermint/v12/x/cpc/abi"
	authtypes "github.com/cosmos/cosmos-sdk/x/auth/types"
	banktypes "github.com/cosmos/cosmos-sdk/x/bank/types"
	"github.com/ethereum/go-ethereum/common"
)

// ---- C12: read-only EVM contexts cannot change state through custom precompiles ---------------------
//
// Generic precompile call op ("pc"): any method of any registered custom precompile, reached through any
// chain of CALL / DELEGATECALL / CALLCODE / STATICCALL frames. Oracle on the store dumps taken around the
// transaction: under a STATICCALL ancestor, and for every method that is a view by its interface, the only
// permitted difference is {sender sequence, fee moved from the sender to the fee collector} and the receipt
// carries no log.

type pcMethod struct {
	Sig   string
	Write bool
	Dyn   bool // has dynamic argument types (packed with the ABI packer)
}

var pcMethods = map[string]map[string]pcMethod{
	"erc20": {
		"transfer": {"transfer(address,uint256)", true, false}, "transferFrom": {"transferFrom(address,address,uint256)", true, false},
		"approve": {"approve(address,uint256)", true, false}, "burn": {"burn(uint256)", true, false}, "burnFrom": {"burnFrom(address,uint256)", true, false},
		"balanceOf": {"balanceOf(address)", false, false}, "totalSupply": {"totalSupply()", false, false}, "allowance": {"allowance(address,address)", false, false},
		"name": {"name()", false, false}, "symbol": {"symbol()", false, false}, "decimals": {"decimals()", false, false},
	},
	"staking": {
		"delegate": {"delegate(address,uint256)", true, false}, "undelegate": {"undelegate(address,uint256)", true, false},
		"redelegate": {"redelegate(address,address,uint256)", true, false}, "withdrawReward": {"withdrawReward(address)", true, false},
		"withdrawRewards": {"withdrawRewards()", true, false}, "transfer": {"transfer(address,uint256)", true, false},
		"balanceOf": {"balanceOf(address)", false, false}, "delegationOf": {"delegationOf(address,address)", false, false},
		"rewardOf": {"rewardOf(address,address)", false, false}, "rewardsOf": {"rewardsOf(address)", false, false},
		"totalDelegationOf": {"totalDelegationOf(address)", false, false}, "delegatedValidators": {"delegatedValidators(address)", false, false},
		"name": {"name()", false, false}, "symbol": {"symbol()", false, false}, "decimals": {"decimals()", false, false},
	},
	"bech32": {
		"bech32AccountAddrPrefix": {"bech32AccountAddrPrefix()", false, false}, "bech32AccountPubPrefix": {"bech32AccountPubPrefix()", false, false},
		"bech32ConsensusAddrPrefix": {"bech32ConsensusAddrPrefix()", false, false}, "bech32ConsensusPubPrefix": {"bech32ConsensusPubPrefix()", false, false},
		"bech32ValidatorAddrPrefix": {"bech32ValidatorAddrPrefix()", false, false}, "bech32ValidatorPubPrefix": {"bech32ValidatorPubPrefix()", false, false},
		"bech32EncodeAddress": {"bech32EncodeAddress(string,address)", false, true}, "bech32Decode": {"bech32Decode(string)", false, true},
		"bech32EncodeBytes": {"bech32EncodeBytes(string,bytes)", false, true}, "bech32Encode32BytesAddress": {"bech32Encode32BytesAddress(string,bytes32)", false, true},
	},
}

func pcKindOfTarget(to string) string {
	switch {
	case strings.HasPrefix(to, "erc20"):
		return "erc20"
	case to == "staking":
		return "staking"
	case to == "bech32":
		return "bech32"
	}
	return ""
}

// opPc: K=pc, W sender, To target (erc20:N | staking | bech32), Mut method, A symbolic args, Chain, Val.
func opPc(w *World, op *Op) {
	kind := pcKindOfTarget(op.To)
	target, ok := w.ResolveAddr(op.To)
	if !ok || kind == "" {
		return
	}
	md, ok := pcMethods[kind][op.Mut]
	if !ok {
		panic("harness: unknown precompile method " + kind + "." + op.Mut)
	}
	wl := w.wallet(op.W)
	hops := ParseChain(op.Chain)
	caller := w.PlanChain(wl.Addr, hops, target, nil).Caller
	var data []byte
	if md.Dyn {
		data = w.packDynamic(op, caller)
	} else {
		var args []interface{}
		for _, a := range op.A {
			switch {
			case a == "caller":
				args = append(args, caller)
			case a == "zero":
				args = append(args, common.Address{})
			default:
				if x, ok := w.ResolveAddr(a); ok {
					args = append(args, x)
				} else {
					args = append(args, relNum(a, new(big.Int), "_"))
				}
			}
		}
		data = CallData(md.Sig, args...)
	}
	plan := w.PlanChain(wl.Addr, hops, target, data)
	eop := Op{K: "eth", W: op.W, To: plan.To.Hex(), Data: hex.EncodeToString(plan.Data), Gas: "i+3000000", Price: "b+1", Val: op.Val}
	if op.Gas != "" {
		eop.Gas = op.Gas
	}
	if op.Price != "" {
		eop.Price = op.Price
	}
	s := w.BuildEthOp(&eop)
	s.PcCall = &PcCall{Target: target, Kind: kind, Method: op.Mut, Data: data, Plan: plan, EOA: wl.Addr, Note: op.Note}
	w.R.Count("o:pc_" + kind + "_" + op.Mut)
	w.Submit(s, op.Via)
}

func (w *World) packDynamic(op *Op, caller common.Address) []byte {
	arg := func(i int) string {
		if i < len(op.A) {
			return op.A[i]
		}
		return ""
	}
	var bz []byte
	var err error
	switch op.Mut {
	case "bech32EncodeAddress":
		a, _ := w.ResolveAddr(arg(1))
		bz, err = cpcabi.Bech32CpcInfo.ABI.Pack(op.Mut, arg(0), a)
	case "bech32Decode":
		bz, err = cpcabi.Bech32CpcInfo.ABI.Pack(op.Mut, arg(0))
	case "bech32EncodeBytes":
		b, _ := hex.DecodeString(arg(1))
		bz, err = cpcabi.Bech32CpcInfo.ABI.Pack(op.Mut, arg(0), b)
	case "bech32Encode32BytesAddress":
		var h [32]byte
		b, _ := hex.DecodeString(arg(1))
		copy(h[32-len(b)%33:], b)
		bz, err = cpcabi.Bech32CpcInfo.ABI.Pack(op.Mut, arg(0), h)
	}
	if err != nil {
		panic(fmt.Sprintf("harness: pack %s: %v", op.Mut, err))
	}
	return bz
}

// allowedFeeOnlyDiff returns the entries of the diff that are NOT explained by {sender sequence, fee}.
func allowedFeeOnlyDiff(d []DiffEntry, sender common.Address) []DiffEntry {
	accKey := append(append([]byte(nil), authtypes.AddressStoreKeyPrefix...), sender.Bytes()...)
	balKey := func(a common.Address) []byte {
		k := append([]byte(nil), banktypes.BalancesPrefix...)
		k = append(k, byte(20))
		k = append(k, a.Bytes()...)
		return append(k, []byte(BaseDenom)...)
	}
	idxKey := func(a common.Address) []byte {
		// bank's denom -> address index entry (created with the first coin of a denomination, removed with the last)
		k := append([]byte(nil), banktypes.DenomAddressPrefix...)
		k = append(k, []byte(BaseDenom)...)
		k = append(k, 0, byte(20))
		return append(k, a.Bytes()...)
	}
	ok1, ok2 := balKey(sender), balKey(FeeCollectorAddr)
	ix1, ix2 := idxKey(sender), idxKey(FeeCollectorAddr)
	var out []DiffEntry
	for _, e := range d {
		switch {
		case e.Store == "t:transient_evm":
		case e.Store == "acc" && bytes.Equal(e.Key, accKey):
		case e.Store == "bank" && (bytes.Equal(e.Key, ok1) || bytes.Equal(e.Key, ok2) || bytes.Equal(e.Key, ix1) || bytes.Equal(e.Key, ix2)):
		case e.Store == "acc" && e.Old == nil && bytes.Equal(e.Key, append(append([]byte(nil), authtypes.AddressStoreKeyPrefix...), EvmModuleAddr.Bytes()...)):
			// fee processing creates the evm module account record the first time a gas refund passes through it
		case e.Store == "acc" && e.Old == nil && bytes.Equal(e.New, EvmModuleAddr.Bytes()):
			// ... and its account-number index entry
		case e.Store == "acc" && bytes.Equal(e.Key, authtypes.GlobalAccountNumberKey):
			// the EVM creates (and, being empty, deletes again) an account record for a touched address: the counter moves
		default:
			out = append(out, e)
		}
	}
	return out
}

func oracleC12(w *World, rec *BlockRecord, t *TxInfo) {
	if t.EthTx == nil || w.ByHash == nil {
		return
	}
	s := w.ByHash[t.EthTx.Hash()]
	if s == nil || s.PcCall == nil || t.Obs == nil || t.Obs.After == nil || !t.HasEthEvent || !t.HasReceipt {
		return
	}
	r := w.R
	c := s.PcCall
	md := pcMethods[c.Kind][c.Method]
	r.At(rec.Height, t.Pos)
	if !c.Plan.Static && md.Write {
		r.Count("o:pc_write_non_static")
		return
	}
	extra := allowedFeeOnlyDiff(Diff(t.Obs.Before, t.Obs.After), c.EOA)
	nLogs := len(t.Rc.Receipt.Logs) - len(c.Plan.MarkerLogs)
	if t.Rc.HasErr {
		nLogs = len(t.Rc.Receipt.Logs)
	}
	last := "eoa"
	if n := len(c.Plan.Hops); n > 0 {
		last = []string{"call", "delegatecall", "callcode", "staticcall"}[c.Plan.Hops[n-1].Kind]
	}
	if c.Plan.Static {
		r.Count("o:pc_under_static")
		r.Probe("static_ancestor_then_other_opcode", last != "staticcall")
		reached := "staticcall_itself"
		if last != "staticcall" {
			reached = "non_static_opcode_under_static_ancestor"
		}
		class := "view"
		if md.Write {
			class = "state_changing"
		}
		if len(extra) > 0 {
			r.Violate("C12", "state_changed_under_static", map[string]string{"contract": c.Kind, "method_class": class, "reached_by": reached},
				"%s.%s reached through chain %q (a STATICCALL ancestor, last opcode %s) changed %d keys, first %s", c.Kind, c.Method, chainStr(c.Plan.Hops), last, len(extra), extra[0])
		}
		if nLogs > 0 {
			r.Violate("C12", "log_under_static", map[string]string{"contract": c.Kind, "method_class": class, "reached_by": reached},
				"%s.%s under a STATICCALL ancestor (chain %q) left %d logs in the receipt", c.Kind, c.Method, chainStr(c.Plan.Hops), nLogs)
		}
		return
	}
	// a view, outside any static context: must not write either
	r.Count("o:pc_view_non_static")
	if len(extra) > 0 {
		r.Violate("C12", "view_method_wrote_state", map[string]string{"contract": c.Kind, "method": c.Method, "store": extra[0].Store},
			"%s.%s (a view) changed %d keys outside {sender sequence, fee}, first %s", c.Kind, c.Method, len(extra), extra[0])
	}
	if nLogs > 0 {
		r.Violate("C12", "view_method_emitted_log", map[string]string{"contract": c.Kind, "method": c.Method}, "%s.%s (a view) left %d logs", c.Kind, c.Method, nLogs)
	}
}

func chainStr(h []Hop) string {
	var p []string
	for _, x := range h {
		s := []string{"c", "d", "cc", "s"}[x.Kind]
		if x.Log {
			s += "+"
		}
		if x.Revert {
			s += "!"
		}
		p = append(p, s)
	}
	return strings.Join(p, ".")
}

// c12AfterBlock: per-tx oracle + registry invariant "state-changing methods charge a non-zero gas cost".
func c12AfterBlock(w *World, rec *BlockRecord, txs []*TxInfo) {
	for _, t := range txs {
		oracleC12(w, rec, t)
	}
	if w.C.Halted {
		return
	}
	r := w.R
	r.At(rec.Height, -1)
	known := map[string]bool{}
	for _, ms := range pcMethods {
		for _, m := range ms {
			known[hex.EncodeToString(Selector(m.Sig))] = true
		}
	}
	writeSel := map[string]map[string]bool{}
	for k, ms := range pcMethods {
		writeSel[k] = map[string]bool{}
		for _, m := range ms {
			if m.Write {
				writeSel[k][hex.EncodeToString(Selector(m.Sig))] = true
			}
		}
	}
	for _, c := range w.C.Node.App.CPCKeeper.GetAllCustomPrecompiledContracts(w.ctx()) {
		kind := map[uint32]string{1: "erc20", 2: "staking", 3: "bech32"}[c.GetMetadata().CustomPrecompiledType]
		for _, e := range c.GetMethodExecutors() {
			sel := hex.EncodeToString(e.Method4BytesSignatures())
			if !known[sel] {
				r.Cross["c12:registered_selector_not_exercised:"+sel]++
			}
			if (writeSel[kind][sel] || !e.ReadOnly()) && e.RequireGas() == 0 {
				r.Violate("C12", "state_changing_method_costs_no_gas", map[string]string{"contract": kind, "selector": sel}, "state-changing method %s of %s requires no gas", sel, kind)
			}
		}
	}
}

// ---- generator ------------------------------------------------------------------------------------------

var staticChains = []string{"s", "s", "s.c", "s.d", "s.cc", "c.s", "c.s.c", "s.c.c", "d.s.d", "s.s", "c.s.d", "cc.s.c"}

func genPcCall(rng *rand.Rand, g *GenesisSpec, chain string) Op {
	w := rng.IntN(g.Wallets)
	other := fmt.Sprintf("w%d", (w+1+rng.IntN(g.Wallets-1))%g.Wallets)
	val := func() string { return fmt.Sprintf("val%d", rng.IntN(g.Validators)) }
	op := Op{K: "pc", W: w, Chain: chain}
	switch k := rng.IntN(100); {
	case k < 40:
		op.To = pick(rng, "erc20:0", "erc20:0", "erc20:1")
		switch rng.IntN(11) {
		case 0:
			op.Mut, op.A = "transfer", []string{other, "1"}
		case 1:
			op.Mut, op.A = "transferFrom", []string{"caller", other, "1"}
		case 2:
			op.Mut, op.A = "approve", []string{other, "5"}
		case 3:
			op.Mut, op.A = "burn", []string{"1"}
		case 4:
			op.Mut, op.A = "burnFrom", []string{"caller", "1"}
		case 5:
			op.Mut, op.A = "balanceOf", []string{other}
		case 6:
			op.Mut = "totalSupply"
		case 7:
			op.Mut, op.A = "allowance", []string{"caller", other}
		default:
			op.Mut = pick(rng, "name", "symbol", "decimals")
		}
	case k < 85:
		op.To = "staking"
		switch rng.IntN(15) {
		case 0, 1:
			op.Mut, op.A = "delegate", []string{val(), pick(rng, "1000", "50000")}
		case 2:
			op.Mut, op.A = "undelegate", []string{val(), "10"}
		case 3:
			op.Mut, op.A = "redelegate", []string{"val0", "val1", "10"}
		case 4:
			op.Mut, op.A = "withdrawReward", []string{val()}
		case 5:
			op.Mut = "withdrawRewards"
		case 6:
			op.Mut, op.A = "transfer", []string{pick(rng, other, other, "caller"), pick(rng, "10", "100000", "1")}
		case 7:
			op.Mut, op.A = "balanceOf", []string{pick(rng, "caller", other)}
		case 8:
			op.Mut, op.A = "delegationOf", []string{pick(rng, "caller", other), val()}
		case 9, 10:
			op.Mut, op.A = "rewardOf", []string{pick(rng, "caller", "caller", other, "val0"), val()}
		case 11:
			op.Mut, op.A = "rewardsOf", []string{pick(rng, "caller", other, "val0")}
		case 12:
			op.Mut, op.A = "totalDelegationOf", []string{pick(rng, "caller", other)}
		case 13:
			op.Mut, op.A = "delegatedValidators", []string{pick(rng, "caller", other, "val0")}
		default:
			op.Mut = pick(rng, "name", "symbol", "decimals")
		}
	default:
		op.To = "bech32"
		switch rng.IntN(6) {
		case 0:
			op.Mut, op.A = "bech32EncodeAddress", []string{pick(rng, "evm", "cosmos", "x"), other}
		case 1:
			op.Mut, op.A = "bech32Decode", []string{pick(rng, "evm1qqqqqqqqqqqqqqqqqqqqqqqqqqqqqqqqv4wt2s", "garbage", "")}
		case 2:
			op.Mut, op.A = "bech32EncodeBytes", []string{"evm", randHex(rng, 1+rng.IntN(40))}
		case 3:
			op.Mut, op.A = "bech32Encode32BytesAddress", []string{"evm", randHex(rng, 32)}
		default:
			op.Mut = pick(rng, "bech32AccountAddrPrefix", "bech32AccountPubPrefix", "bech32ConsensusAddrPrefix", "bech32ConsensusPubPrefix", "bech32ValidatorAddrPrefix", "bech32ValidatorPubPrefix")
		}
	}
	return op
}

func genC12(rng *rand.Rand, seed uint64, tier string) *Script {
	g := pcGenesis(rng)
	g.Validators = 2 + rng.IntN(2)
	s := &Script{Prop: "C12", Seed: seed, Gen: g, Extra: map[string]string{}}
	ops := []Op{{K: "block", Dt: 5}, {K: "msg", W: 0, Mut: "cpc_erc20", Denom: "utwo"}, {K: "block", Dt: 5}}
	// routers get funds and stake so that every method has something to act on
	for i := 0; i < nRouters; i++ {
		ops = append(ops, Op{K: "bank", W: 1, To: fmt.Sprintf("c:router%d", i), Val: "900000000", Denom: BaseDenom, Price: "b+1", Gas: "200000"})
		ops = append(ops, Op{K: "bank", W: 1, To: fmt.Sprintf("c:router%d", i), Val: "900000", Denom: "utwo", Price: "b+1", Gas: "200000"})
	}
	ops = append(ops, Op{K: "block", Dt: 5})
	for i := 0; i < g.Wallets; i++ {
		ops = append(ops, Op{K: "pc", W: i, To: "staking", Mut: "delegate", A: []string{fmt.Sprintf("val%d", i%g.Validators), "100000"}})
	}
	for _, ch := range []string{"c", "c.c", "d"} {
		ops = append(ops, Op{K: "pc", W: 0, To: "staking", Mut: "delegate", A: []string{"val0", "100000"}, Chain: ch})
	}
	ops = append(ops, Op{K: "block", Dt: 5}, Op{K: "block", Dt: 5})
	nb := 4 + rng.IntN(8)
	dieAt := -1
	if rng.IntN(3) == 0 {
		dieAt = rng.IntN(nb) // a contract approves a spender and ceases to exist; its allowance is read afterwards
	}
	for b := 0; b < nb; b++ {
		if b == dieAt {
			ops = append(ops, Op{K: "eth", W: rng.IntN(g.Wallets), To: "c:callsd", Gas: "i+900000", Price: "b+1", Tip: "1",
				Data: "{erc20:" + pick(rng, "0", "1") + "}" + hexWord(1) + hex.EncodeToString(Selector("approve(address,uint256)")) + "{w1}" + hexWord(700)})
			ops = append(ops, Op{K: "block", Dt: 5})
		}
		for i, n := 0, 1+rng.IntN(6); i < n; i++ {
			if dieAt >= 0 && b >= dieAt && rng.IntN(5) == 0 {
				ops = append(ops, Op{K: "pc", W: rng.IntN(g.Wallets), To: "erc20:" + pick(rng, "0", "1"), Mut: "allowance", A: []string{"c:callsd", "w1"}, Chain: pick(rng, "s", "s", "", "c.s")})
				continue
			}
			switch k := rng.IntN(10); {
			case k < 6:
				ops = append(ops, genPcCall(rng, &g, staticChains[rng.IntN(len(staticChains))]))
			case k < 9:
				// views (and writes, for the workload) outside static contexts
				ops = append(ops, genPcCall(rng, &g, pick(rng, "", "", "c", "d", "cc", "c.c", "c+")))
			default:
				ops = append(ops, genMixedTx(rng, &g))
			}
		}
		ops = append(ops, Op{K: "block", Dt: pick(rng, 1, 5, 5, 60), Prop: rng.IntN(3), Byz: rng.IntN(6) == 0})
	}
	ops = append(ops, Op{K: "block", Dt: 5})
	s.Ops = ops
	return s
}

func init() {
	opHandlers["pc"] = opPc
	Arms["C12"] = &Arm{Gen: genC12, Run: runPc(c12AfterBlock)}
	_ = sort.Strings
}
