package evsim

import (
	"fmt"
	"math/big"

	"github.com/ethereum/go-ethereum/common"
	"github.com/ethereum/go-ethereum/core/vm"
)

// Asm is a minimal label-resolving EVM assembler (there is no solc in the sandbox).
type Asm struct {
	buf    []byte
	labels map[string]int
	refs   []asmRef
}

type asmRef struct {
	pos   int
	label string
}

func NewAsm() *Asm { return &Asm{labels: map[string]int{}} }

// Op appends raw opcodes.
func (a *Asm) Op(ops ...vm.OpCode) *Asm {
	for _, o := range ops {
		a.buf = append(a.buf, byte(o))
	}
	return a
}

// Push pushes an integer, byte slice, address, hash or *big.Int with the shortest PUSHn.
func (a *Asm) Push(v interface{}) *Asm {
	var b []byte
	switch x := v.(type) {
	case int:
		b = new(big.Int).SetInt64(int64(x)).Bytes()
	case int64:
		b = new(big.Int).SetInt64(x).Bytes()
	case uint64:
		b = new(big.Int).SetUint64(x).Bytes()
	case *big.Int:
		b = x.Bytes()
	case []byte:
		b = x
	case common.Address:
		b = x.Bytes()
	case common.Hash:
		b = x.Bytes()
	default:
		panic(fmt.Sprintf("asm: cannot push %T", v))
	}
	if len(b) == 0 {
		b = []byte{0}
	}
	if len(b) > 32 {
		panic("asm: push too long")
	}
	a.buf = append(a.buf, byte(vm.PUSH1)+byte(len(b)-1))
	a.buf = append(a.buf, b...)
	return a
}

// PushLabel pushes the (2-byte) code offset of a label.
func (a *Asm) PushLabel(l string) *Asm {
	a.buf = append(a.buf, byte(vm.PUSH2), 0, 0)
	a.refs = append(a.refs, asmRef{len(a.buf) - 2, l})
	return a
}

// Label marks a JUMPDEST.
func (a *Asm) Label(l string) *Asm {
	a.labels[l] = len(a.buf)
	a.buf = append(a.buf, byte(vm.JUMPDEST))
	return a
}

// Mark records a position without emitting a JUMPDEST (for data sections).
func (a *Asm) Mark(l string) *Asm {
	a.labels[l] = len(a.buf)
	return a
}

// Raw appends raw bytes.
func (a *Asm) Raw(b []byte) *Asm { a.buf = append(a.buf, b...); return a }

// Len is the current code size.
func (a *Asm) Len() int { return len(a.buf) }

// Bytes resolves labels and returns the code.
func (a *Asm) Bytes() []byte {
	out := append([]byte(nil), a.buf...)
	for _, r := range a.refs {
		p, ok := a.labels[r.label]
		if !ok {
			panic("asm: unknown label " + r.label)
		}
		out[r.pos] = byte(p >> 8)
		out[r.pos+1] = byte(p)
	}
	return out
}

// InitCodeFor wraps runtime code in a constructor that returns it (CODECOPY + RETURN). pre is run first.
func InitCodeFor(runtime []byte, pre func(a *Asm)) []byte {
	a := NewAsm()
	if pre != nil {
		pre(a)
	}
	a.Push(len(runtime)).PushLabel("rt").Push(0).Op(vm.CODECOPY)
	a.Push(len(runtime)).Push(0).Op(vm.RETURN)
	a.Mark("rt").Raw(runtime)
	return a.Bytes()
}

// ---- fixed templates -----------------------------------------------------------------------------

// TmplStore: slot0 = calldata[0:32]; LOG1(topic 1, data = the word); STOP.
func TmplStore() []byte {
	a := NewAsm()
	a.Push(0).Op(vm.CALLDATALOAD).Push(0).Op(vm.SSTORE)
	a.Push(0).Op(vm.CALLDATALOAD).Push(0).Op(vm.MSTORE)
	a.Push(1).Push(32).Push(0).Op(vm.LOG1)
	a.Op(vm.STOP)
	return a.Bytes()
}

// TmplLogs: emits calldata[0:32] logs (LOG2, topics (i, 0xabc)), then returns the count.
func TmplLogs() []byte {
	a := NewAsm()
	a.Push(0).Op(vm.CALLDATALOAD) // n
	a.Label("loop")
	a.Op(vm.DUP1, vm.ISZERO).PushLabel("done").Op(vm.JUMPI)
	a.Op(vm.DUP1).Push(0).Op(vm.MSTORE)
	a.Push(0xabc).Op(vm.DUP2).Push(32).Push(0).Op(vm.LOG2)
	a.Push(1).Op(vm.SWAP1, vm.SUB)
	a.PushLabel("loop").Op(vm.JUMP)
	a.Label("done")
	a.Op(vm.POP).Push(32).Push(0).Op(vm.RETURN)
	return a.Bytes()
}

// TmplRevert: writes slot 7, logs, then REVERTs with 32 bytes of data.
func TmplRevert() []byte {
	a := NewAsm()
	a.Push(0x77).Push(7).Op(vm.SSTORE)
	a.Push(9).Push(0).Push(0).Op(vm.LOG1)
	a.Push(0xdead).Push(0).Op(vm.MSTORE)
	a.Push(32).Push(0).Op(vm.REVERT)
	return a.Bytes()
}

// TmplInvalid: writes then hits INVALID (all gas consumed).
func TmplInvalid() []byte {
	a := NewAsm()
	a.Push(1).Push(3).Op(vm.SSTORE)
	a.Op(vm.INVALID)
	return a.Bytes()
}

// TmplBurn: infinite loop with storage writes (runs out of gas).
func TmplBurn() []byte {
	a := NewAsm()
	a.Push(0)
	a.Label("l")
	a.Push(1).Op(vm.ADD, vm.DUP1, vm.DUP1, vm.SSTORE)
	a.PushLabel("l").Op(vm.JUMP)
	return a.Bytes()
}

// TmplClear: calldata word0 = n: for slots 1..n: if word1 != 0 set to word1 else clear (refunds).
func TmplClear() []byte {
	a := NewAsm()
	a.Push(0).Op(vm.CALLDATALOAD) // n
	a.Label("loop")
	a.Op(vm.DUP1, vm.ISZERO).PushLabel("done").Op(vm.JUMPI)
	a.Push(32).Op(vm.CALLDATALOAD) // value
	a.Op(vm.DUP2, vm.SSTORE)       // sstore(slot=n, value)
	a.Push(1).Op(vm.SWAP1, vm.SUB)
	a.PushLabel("loop").Op(vm.JUMP)
	a.Label("done")
	a.Op(vm.STOP)
	return a.Bytes()
}

// TmplSelfDestruct: SELFDESTRUCT(beneficiary = calldata word0).
func TmplSelfDestruct() []byte {
	a := NewAsm()
	a.Push(0).Op(vm.CALLDATALOAD).Op(vm.SELFDESTRUCT)
	return a.Bytes()
}

// TmplFactory: CREATE a child (runtime = TmplStore) with value = callvalue/2; returns the child address;
// when calldata word0 != 0 it then REVERTs.
func TmplFactory() []byte {
	child := InitCodeFor(TmplStore(), func(a *Asm) { a.Push(0x11).Push(1).Op(vm.SSTORE) })
	a := NewAsm()
	a.Push(len(child)).PushLabel("child").Push(0).Op(vm.CODECOPY)
	a.Push(len(child)).Push(0)             // size, offset
	a.Push(2).Op(vm.CALLVALUE, vm.DIV)     // value
	a.Op(vm.CREATE)                        // addr
	a.Push(0).Op(vm.MSTORE)                // mem[0]=addr
	a.Push(5).Push(32).Push(0).Op(vm.LOG1) // log the address
	a.Push(0).Op(vm.CALLDATALOAD).PushLabel("rv").Op(vm.JUMPI)
	a.Push(32).Push(0).Op(vm.RETURN)
	a.Label("rv")
	a.Push(32).Push(0).Op(vm.REVERT)
	a.Mark("child").Raw(child)
	return a.Bytes()
}

// TmplProxy: CALL(gas, to=word0, value=word1, in=calldata[64:], out=0) and return (success, returndata[0:32]).
func TmplProxy() []byte {
	a := NewAsm()
	// copy calldata[64:] to mem[0:]
	a.Push(64).Op(vm.CALLDATASIZE, vm.SUB) // len = size-64 (underflows if <64; callers always pass >=64)
	a.Op(vm.DUP1).Push(64).Push(0).Op(vm.CALLDATACOPY)
	// call
	a.Push(0).Push(0)              // outSize, outOffset
	a.Op(vm.DUP3).Push(0)          // inSize, inOffset
	a.Push(32).Op(vm.CALLDATALOAD) // value
	a.Push(0).Op(vm.CALLDATALOAD)  // to
	a.Op(vm.GAS, vm.CALL)          // success
	a.Push(0).Op(vm.MSTORE)        // mem[0]=success
	a.Push(3).Push(32).Push(0).Op(vm.LOG1)
	a.Push(32).Push(0).Op(vm.RETURN)
	return a.Bytes()
}

// TmplMulti: for every 32-byte word of the call data: CALL(gas, addr=word, value 0, no data); results ignored.
func TmplMulti() []byte {
	a := NewAsm()
	a.Push(0) // i
	a.Label("loop")
	a.Op(vm.DUP1, vm.CALLDATASIZE, vm.GT, vm.ISZERO).PushLabel("done").Op(vm.JUMPI)
	a.Push(0).Push(0).Push(0).Push(0).Push(0) // outSize outOff inSize inOff value
	a.Op(vm.DUP6, vm.CALLDATALOAD)            // addr
	a.Op(vm.GAS, vm.CALL, vm.POP)
	a.Push(32).Op(vm.ADD)
	a.PushLabel("loop").Op(vm.JUMP)
	a.Label("done")
	a.Op(vm.STOP)
	return a.Bytes()
}

// Word encodes integers/addresses as a 32-byte ABI word.
func Word(v interface{}) []byte {
	switch x := v.(type) {
	case int:
		return common.BigToHash(big.NewInt(int64(x))).Bytes()
	case uint64:
		return common.BigToHash(new(big.Int).SetUint64(x)).Bytes()
	case *big.Int:
		return common.BigToHash(x).Bytes()
	case common.Address:
		return common.BytesToHash(x.Bytes()).Bytes()
	case common.Hash:
		return x.Bytes()
	}
	panic(fmt.Sprintf("word: %T", v))
}

// Words concatenates ABI words.
func Words(vs ...interface{}) []byte {
	var out []byte
	for _, v := range vs {
		out = append(out, Word(v)...)
	}
	return out
}
