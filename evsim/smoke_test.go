package evsim

import (
	"fmt"
	"math/big"
	"testing"
	"testing/synctest"
	"time"

	sdkdb "github.com/cosmos/cosmos-db"
)

func TestSmoke(t *testing.T) {
	synctest.Test(t, func(t *testing.T) {
		t0 := time.Now()
		g := BuildGenesis(DefaultGenesisSpec())
		c := NewChain(g, sdkdb.NewMemDB(), NodeOpts{})
		if c.InitErr != nil || c.InitPanic != nil {
			t.Fatalf("init: %v %+v", c.InitErr, c.InitPanic)
		}
		r := c.Block(nil, BlockOpts{Dt: 5 * time.Second, Honest: true})
		fmt.Printf("h=%d apphash=%x err=%v\n", r.Height, r.AppHash, r.Err)
		w0, w1 := g.Wallets[0], g.Wallets[1]
		bz, _ := BuildEthTx(w0, &EthTx{Type: 0, Nonce: 0, To: &w1.Addr, Value: big.NewInt(12345), Gas: 100000, GasPrice: big.NewInt(2_000_000_000)})
		r = c.Block([][]byte{bz}, BlockOpts{Dt: 5 * time.Second, Honest: true})
		if r.Panic != nil {
			t.Fatalf("panic %s\n%s", r.Panic.Value, r.Panic.Stack)
		}
		fmt.Printf("h=%d apphash=%x err=%v txs=%d\n", r.Height, r.AppHash, r.Err, len(r.Res.TxResults))
		for _, tr := range r.Res.TxResults {
			fmt.Printf(" code=%d gasW=%d gasU=%d log=%s events=%d\n", tr.Code, tr.GasWanted, tr.GasUsed, tr.Log, len(tr.Events))
			for _, e := range tr.Events {
				fmt.Printf("   %s", e.Type)
				for _, a := range e.Attributes {
					v := a.Value
					if len(v) > 40 {
						v = v[:40] + "..."
					}
					fmt.Printf(" %s=%s", a.Key, v)
				}
				fmt.Println()
			}
		}
		if r.Obs != nil {
			fmt.Printf("obs txs=%d\n", len(r.Obs.Txs))
			for _, o := range r.Obs.Txs {
				d := Diff(o.Before, o.After)
				for _, e := range d {
					fmt.Println("   ", e.String())
				}
			}
		}
		fmt.Println("real elapsed (fake clock):", time.Since(t0))
	})
}
