package simrt

import (
	"encoding/binary"
	"hash/fnv"
	"reflect"
)

// A select statement with several ready cases is decided by the Go runtime's private random source - the one source
// of nondeterminism the scheduler cannot own from outside. The yield overlay therefore rewrites every select of the
// instrumented packages into simrt.Select: under a scheduler the cases are probed one by one in an order derived
// from (seed, step, site), so which ready case wins is a function of the seed; only when none is ready does the
// goroutine block on all of them (and then exactly one becomes ready, because one goroutine runs at a time).
// Without a scheduler Select is the ordinary runtime select.

// Case is one communication clause of a rewritten select.
type Case struct{ c reflect.SelectCase }

// RecvCase is `case ... <-ch`.
func RecvCase[T any](ch <-chan T) Case {
	return Case{reflect.SelectCase{Dir: reflect.SelectRecv, Chan: reflect.ValueOf(ch)}}
}

// SendCase is `case ch <- v`.
func SendCase[T any](ch chan<- T, v T) Case {
	return Case{reflect.SelectCase{Dir: reflect.SelectSend, Chan: reflect.ValueOf(ch), Send: reflect.ValueOf(&v).Elem()}}
}

// RecvVal converts the received value of the chosen case back to its static type.
func RecvVal[T any](_ <-chan T, v reflect.Value) T {
	var z T
	if v.IsValid() {
		reflect.ValueOf(&z).Elem().Set(v)
	}
	return z
}

// Select runs a select over cases; with hasDefault the index len(cases) stands for the default clause.
func Select(site string, hasDefault bool, cases ...Case) (int, reflect.Value, bool) {
	rc := make([]reflect.SelectCase, len(cases), len(cases)+1)
	for i, c := range cases {
		rc[i] = c.c
	}
	s := sched.Load()
	if s == nil || s.stopping.Load() {
		if hasDefault {
			rc = append(rc, reflect.SelectCase{Dir: reflect.SelectDefault})
		}
		return reflect.Select(rc)
	}
	s.mu.Lock()
	step := s.Step
	s.mu.Unlock()
	h := fnv.New64a()
	var b [16]byte
	binary.BigEndian.PutUint64(b[:8], s.seed)
	binary.BigEndian.PutUint64(b[8:], uint64(step))
	h.Write(b[:])
	h.Write([]byte(site))
	x := h.Sum64()
	order := make([]int, len(rc))
	for i := range order {
		order[i] = i
	}
	for i := len(order) - 1; i > 0; i-- {
		x = x*6364136223846793005 + 1442695040888963407
		j := int((x >> 33) % uint64(i+1))
		order[i], order[j] = order[j], order[i]
	}
	for _, i := range order {
		if ch := rc[i].Chan; !ch.IsValid() || ch.IsNil() {
			continue
		}
		if chosen, v, ok := reflect.Select([]reflect.SelectCase{rc[i], {Dir: reflect.SelectDefault}}); chosen == 0 {
			return i, v, ok
		}
	}
	if hasDefault {
		return len(cases), reflect.Value{}, false
	}
	return reflect.Select(rc)
}

// Guarded is a lock-discipline probe for values that must only be used while a mutex is held (a websocket connection
// has one writer at a time): the overlay rewrites `x.conn.WriteMessage(...)` into
// `simrt.Guarded(x.mux, site, x.conn).WriteMessage(...)`. Writing without the mutex is a bug whatever the schedule: two
// such writers can run at the same time in production (gorilla panics: "concurrent write to websocket connection").
func Guarded[T any](m interface{}, site string, v T) T {
	s := sched.Load()
	if s == nil {
		return v
	}
	g := s.cur()
	if g.heldW[ptrOf(m)] == 0 {
		s.mu.Lock()
		s.Findings = append(s.Findings, "connection_write_without_its_mutex@"+site)
		s.mu.Unlock()
	}
	return v
}
