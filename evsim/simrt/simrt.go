// Package simrt is the run-time side of the simulator's compile-time overlay: instrumented copies of
// /repo source files call into it. With no simulator mode set every function behaves natively.
package simrt

import (
	"encoding/binary"
	"fmt"
	"hash/fnv"
	"sort"
	"sync/atomic"
)

const (
	orderNative int32 = iota
	orderAsc
	orderDesc
	orderShuffle
)

var (
	mapMode atomic.Int32
	mapSeed atomic.Uint64
	// MapRanges counts instrumented map iterations with >=2 entries (reach probe).
	MapRanges atomic.Int64
)

// SetMapOrder selects the iteration order of every instrumented map range: "", "native", "asc", "desc", "shuffle".
func SetMapOrder(mode string, seed uint64) {
	mapSeed.Store(seed)
	switch mode {
	case "asc":
		mapMode.Store(orderAsc)
	case "desc":
		mapMode.Store(orderDesc)
	case "shuffle":
		mapMode.Store(orderShuffle)
	default:
		mapMode.Store(orderNative)
	}
}

// Keys returns the keys of m in the order selected by the simulator. The Go specification leaves map
// iteration order unspecified, so every order returned here is a legal execution of the original loop.
func Keys[K comparable, V any](m map[K]V, site string) []K {
	keys := make([]K, 0, len(m))
	for k := range m {
		keys = append(keys, k)
	}
	mode := mapMode.Load()
	if mode == orderNative || len(keys) < 2 {
		return keys
	}
	MapRanges.Add(1)
	type ent struct {
		s string
		k K
	}
	es := make([]ent, len(keys))
	for i, k := range keys {
		es[i] = ent{fmt.Sprintf("%x", any(k)), k}
	}
	sort.Slice(es, func(i, j int) bool { return es[i].s < es[j].s })
	switch mode {
	case orderDesc:
		for i, j := 0, len(es)-1; i < j; i, j = i+1, j-1 {
			es[i], es[j] = es[j], es[i]
		}
	case orderShuffle:
		h := fnv.New64a()
		var b [8]byte
		binary.BigEndian.PutUint64(b[:], mapSeed.Load())
		h.Write(b[:])
		h.Write([]byte(site))
		x := h.Sum64() | 1
		for i := len(es) - 1; i > 0; i-- {
			x ^= x << 13
			x ^= x >> 7
			x ^= x << 17
			j := int(x % uint64(i+1))
			es[i], es[j] = es[j], es[i]
		}
	}
	for i := range es {
		keys[i] = es[i].k
	}
	return keys
}
