package simrt

import (
	"bytes"
	"crypto/sha256"
	"encoding/binary"
	"encoding/hex"
	"fmt"
	"hash"
	"hash/fnv"
	"runtime"
	"runtime/debug"
	"sort"
	"strconv"
	"sync"
	"sync/atomic"
	"testing/synctest"
	"unsafe"
)

// ---- deterministic goroutine scheduler (schedule exploration of the RPC machinery) ---------------------
//
// Instrumented code (overlay, see /verif/instr/yield.go) and the harness call Yield before and after every
// synchronisation operation. A yielding goroutine parks on its own channel (a durable block for synctest).
// The scheduler goroutine waits until every goroutine of the bubble is durably blocked (synctest.Wait),
// sorts the parked goroutines by their logical id and releases exactly one, chosen by a hash of
// (seed, step): between two decisions exactly one goroutine makes progress, and the decision depends only on
// the SET of parked goroutines. One seed is one schedule; the decision log is the replayable schedule.

type gInfo struct {
	id       string
	children int
	heldR    map[uintptr]int
	heldW    map[uintptr]int
	spins    int
}

type parkEntry struct {
	g    *gInfo
	site string
	wake chan struct{}
}

// PanicRec is a panic recovered in a goroutine started through Go.
type PanicRec struct {
	Goroutine string
	Value     string
	Stack     string
}

// Scheduler is one schedule exploration run.
type Scheduler struct {
	mu        sync.Mutex
	seed      uint64
	parked    []*parkEntry
	byGoid    map[int64]*gInfo
	root      *gInfo
	Step      int
	MaxSteps  int
	kick      chan struct{}
	quit      chan struct{}
	stopping  atomic.Bool
	logH      hash.Hash
	Panics    []PanicRec
	Findings  []string // lock-discipline findings ("map_write_under_read_lock@site")
	Exhausted bool
	SpinSites map[string]int
	live      int
	ids       int
	hot       map[string]int
	Trace     []string
	waiters   map[uintptr][]*parkEntry // goroutines waiting for a mutex: not schedulable until it is released
	done      chan struct{}
}

var sched atomic.Pointer[Scheduler]

// TraceOn records every scheduling decision with the whole parked set (debugging aid).
var TraceOn bool

func goid() int64 {
	var buf [64]byte
	n := runtime.Stack(buf[:], false)
	b := buf[:n]
	b = bytes.TrimPrefix(b, []byte("goroutine "))
	if i := bytes.IndexByte(b, ' '); i > 0 {
		id, _ := strconv.ParseInt(string(b[:i]), 10, 64)
		return id
	}
	return -1
}

// Start installs a scheduler; the calling goroutine becomes the root ("m"). Must be called inside a bubble.
func Start(seed uint64, maxSteps int) *Scheduler {
	s := &Scheduler{seed: seed, byGoid: map[int64]*gInfo{}, MaxSteps: maxSteps, kick: make(chan struct{}, 1), quit: make(chan struct{}), logH: sha256.New(), SpinSites: map[string]int{}, done: make(chan struct{}), waiters: map[uintptr][]*parkEntry{}, hot: map[string]int{}}
	s.root = &gInfo{id: "m", heldR: map[uintptr]int{}, heldW: map[uintptr]int{}}
	s.byGoid[goid()] = s.root
	sched.Store(s)
	go s.loop()
	return s
}

// Stop ends the exploration: every goroutine still parked (or parking later) unwinds through runtime.Goexit.
func (s *Scheduler) Stop() {
	s.stopping.Store(true)
	s.mu.Lock()
	ps := s.parked
	s.parked = nil
	for _, ws := range s.waiters {
		ps = append(ps, ws...)
	}
	s.waiters = map[uintptr][]*parkEntry{}
	s.mu.Unlock()
	for _, e := range ps {
		close(e.wake)
	}
	close(s.quit)
	<-s.done
	sched.Store(nil)
}

func (s *Scheduler) Digest() string { return hex.EncodeToString(s.logH.Sum(nil)) }

func (s *Scheduler) cur() *gInfo {
	id := goid()
	s.mu.Lock()
	defer s.mu.Unlock()
	g := s.byGoid[id]
	if g == nil {
		// a goroutine not started through Go (library code): it gets an id in arrival order
		g = &gInfo{id: fmt.Sprintf("x%d", len(s.byGoid)), heldR: map[uintptr]int{}, heldW: map[uintptr]int{}}
		s.byGoid[id] = g
	}
	return g
}

func (s *Scheduler) loop() {
	defer close(s.done)
	for {
		synctest.Wait()
		s.mu.Lock()
		if s.stopping.Load() {
			s.mu.Unlock()
			return
		}
		if len(s.parked) == 0 {
			s.mu.Unlock()
			select {
			case <-s.kick:
			case <-s.quit:
				return
			}
			continue
		}
		sort.Slice(s.parked, func(i, j int) bool {
			if s.parked[i].g.id != s.parked[j].g.id {
				return s.parked[i].g.id < s.parked[j].g.id
			}
			return s.parked[i].site < s.parked[j].site
		})
		h := fnv.New64a()
		var b [16]byte
		binary.BigEndian.PutUint64(b[:8], s.seed)
		binary.BigEndian.PutUint64(b[8:], uint64(s.Step))
		h.Write(b[:])
		idx := int(h.Sum64() % uint64(len(s.parked)))
		e := s.parked[idx]
		s.parked = append(s.parked[:idx], s.parked[idx+1:]...)
		s.Step++
		fmt.Fprintf(s.logH, "%d:%s@%s|%d\n", s.Step, e.g.id, e.site, len(s.parked))
		if TraceOn {
			names := make([]string, 0, len(s.parked))
			for _, p := range s.parked {
				names = append(names, p.g.id+"@"+p.site)
			}
			s.Trace = append(s.Trace, fmt.Sprintf("%d pick %s@%s rest=%v", s.Step, e.g.id, e.site, names))
		}
		if s.Step > s.MaxSteps*3/4 {
			s.hot[e.site]++ // where the last quarter of the budget went
		}
		if s.Step > s.MaxSteps {
			s.Exhausted = true
			s.mu.Unlock()
			close(e.wake)
			// budget exhausted: let everybody unwind
			s.stopping.Store(true)
			s.mu.Lock()
			ps := s.parked
			s.parked = nil
			for _, ws := range s.waiters {
				ps = append(ps, ws...)
			}
			s.waiters = map[uintptr][]*parkEntry{}
			s.mu.Unlock()
			for _, p := range ps {
				close(p.wake)
			}
			return
		}
		s.mu.Unlock()
		close(e.wake)
	}
}

// Yield is a scheduling point. Without a scheduler it returns at once.
func Yield(site string) {
	s := sched.Load()
	if s == nil {
		return
	}
	if s.stopping.Load() {
		if s.cur() != s.root {
			runtime.Goexit()
		}
		return
	}
	g := s.cur()
	e := &parkEntry{g: g, site: site, wake: make(chan struct{})}
	s.mu.Lock()
	s.parked = append(s.parked, e)
	s.mu.Unlock()
	select {
	case s.kick <- struct{}{}:
	default:
	}
	<-e.wake
	if s.stopping.Load() && g != s.root {
		runtime.Goexit()
	}
}

// Go starts fn as a goroutine known to the scheduler (deterministic id parent.childIndex); panics are recorded.
func Go(site string, fn func()) {
	s := sched.Load()
	if s == nil {
		go fn()
		return
	}
	parent := s.cur()
	s.mu.Lock()
	parent.children++
	g := &gInfo{id: fmt.Sprintf("%s.%d", parent.id, parent.children), heldR: map[uintptr]int{}, heldW: map[uintptr]int{}}
	s.live++
	s.mu.Unlock()
	go func() {
		id := goid()
		s.mu.Lock()
		s.byGoid[id] = g
		s.mu.Unlock()
		defer func() {
			if x := recover(); x != nil {
				s.mu.Lock()
				s.Panics = append(s.Panics, PanicRec{Goroutine: g.id + " (" + site + ")", Value: fmt.Sprint(x), Stack: string(debug.Stack())})
				s.mu.Unlock()
			}
			s.mu.Lock()
			delete(s.byGoid, id)
			s.live--
			s.mu.Unlock()
		}()
		Yield(site + ":start")
		fn()
	}()
}

type tryLocker interface {
	TryLock() bool
	Unlock()
}

type tryRLocker interface {
	TryRLock() bool
	RUnlock()
}

func ptrOf(m interface{}) uintptr {
	switch x := m.(type) {
	case *sync.Mutex:
		return uintptr(unsafe.Pointer(x))
	case *sync.RWMutex:
		return uintptr(unsafe.Pointer(x))
	}
	return 0
}

// waitFor parks the goroutine until somebody releases the mutex p (it is not schedulable meanwhile, so a holder
// that sleeps on the fake clock does not keep the scheduler busy).
func (s *Scheduler) waitFor(p uintptr, g *gInfo, site string) {
	if s.stopping.Load() {
		if g != s.root {
			runtime.Goexit()
		}
		return
	}
	e := &parkEntry{g: g, site: site + ":wait", wake: make(chan struct{})}
	s.mu.Lock()
	s.waiters[p] = append(s.waiters[p], e)
	s.SpinSites[site]++
	s.mu.Unlock()
	<-e.wake
	if s.stopping.Load() && g != s.root {
		runtime.Goexit()
	}
}

// released makes the waiters of mutex p schedulable again.
func (s *Scheduler) released(p uintptr) {
	s.mu.Lock()
	ws := s.waiters[p]
	delete(s.waiters, p)
	s.parked = append(s.parked, ws...)
	s.mu.Unlock()
	if len(ws) > 0 {
		select {
		case s.kick <- struct{}{}:
		default:
		}
	}
}

// Waiting lists the sites of goroutines that still wait for a mutex (at the end of a run: a deadlock, or a lock
// leaked by a goroutine that died holding it).
func (s *Scheduler) Waiting() []string {
	s.mu.Lock()
	defer s.mu.Unlock()
	var out []string
	for _, ws := range s.waiters {
		for _, e := range ws {
			out = append(out, e.g.id+"@"+e.site)
		}
	}
	sort.Strings(out)
	return out
}

// LockW acquires m for writing; under the scheduler it never blocks on the mutex itself.
func LockW(m sync.Locker, site string) {
	s := sched.Load()
	if s == nil {
		m.Lock()
		return
	}
	tl := m.(tryLocker)
	Yield(site)
	g := s.cur()
	p := ptrOf(m)
	for !tl.TryLock() {
		s.waitFor(p, g, site)
	}
	g.heldW[p]++
}

// LockR acquires m for reading.
func LockR(m *sync.RWMutex, site string) {
	s := sched.Load()
	if s == nil {
		m.RLock()
		return
	}
	Yield(site)
	g := s.cur()
	p := ptrOf(m)
	for !m.TryRLock() {
		s.waitFor(p, g, site)
	}
	g.heldR[p]++
}

func UnlockW(m sync.Locker, site string) {
	m.Unlock()
	if s := sched.Load(); s != nil {
		g := s.cur()
		p := ptrOf(m)
		if g.heldW[p] > 0 {
			g.heldW[p]--
		}
		s.released(p)
	}
}

func UnlockR(m *sync.RWMutex, site string) {
	m.RUnlock()
	if s := sched.Load(); s != nil {
		g := s.cur()
		p := ptrOf(m)
		if g.heldR[p] > 0 {
			g.heldR[p]--
		}
		s.released(p)
	}
}

// MapWrite is a lock-discipline probe: writing a map while holding some mutex for READING only is a bug
// whatever the schedule (two such writers, or a writer and a reader, can run at the same time in production).
func MapWrite(site string) {
	s := sched.Load()
	if s == nil {
		return
	}
	g := s.cur()
	r, w := 0, 0
	for _, n := range g.heldR {
		r += n
	}
	for _, n := range g.heldW {
		w += n
	}
	if r > 0 && w == 0 {
		s.mu.Lock()
		s.Findings = append(s.Findings, "map_write_under_read_lock@"+site)
		s.mu.Unlock()
	}
}

// Live is the number of goroutines started through Go that have not finished.
func (s *Scheduler) Live() int { s.mu.Lock(); defer s.mu.Unlock(); return s.live }

// ID replaces an identifier drawn from crypto/rand by the next element of a per-run sequence (scheduler active only).
func ID[T ~string](orig T) T {
	s := sched.Load()
	if s == nil {
		return orig
	}
	s.mu.Lock()
	s.ids++
	n := s.ids
	s.mu.Unlock()
	return T(fmt.Sprintf("0x%032x", n))
}

// Reset uninstalls the scheduler without waiting for it (after a bubble that ended in a deadlock).
func Reset() { sched.Store(nil) }

// HotSite names the scheduling point that consumed most of the last quarter of the step budget.
func (s *Scheduler) HotSite() string {
	s.mu.Lock()
	defer s.mu.Unlock()
	best, n := "none", 0
	keys := make([]string, 0, len(s.hot))
	for k := range s.hot {
		keys = append(keys, k)
	}
	sort.Strings(keys)
	for _, k := range keys {
		if s.hot[k] > n {
			best, n = k, s.hot[k]
		}
	}
	return best
}
