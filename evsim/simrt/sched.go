package simrt

import (
	"bytes"
	"crypto/sha256"
	"encoding/binary"
	"encoding/hex"
	"fmt"
	"hash"
	"hash/fnv"
	"runtime"
	"runtime/debug"
	"sort"
	"strconv"
	"sync"
	"sync/atomic"
	"testing/synctest"
	"unsafe"
)

// ---- deterministic goroutine scheduler (schedule exploration of the RPC machinery) ---------------------
//
// Instrumented code (overlay, see /verif/instr/yield.go) and the harness call Yield before and after every
// synchronisation operation. A yielding goroutine parks on its own channel (a durable block for synctest).
// The scheduler goroutine waits until every goroutine of the bubble is durably blocked (synctest.Wait),
// sorts the parked goroutines by their logical id and releases exactly one, chosen by a hash of
// (seed, step): between two decisions exactly one goroutine makes progress, and the decision depends only on
// the SET of parked goroutines. One seed is one schedule; the decision log is the replayable schedule.

type gInfo struct {
	id       string
	children int
	heldR    map[uintptr]int
	heldW    map[uintptr]int
	spins    int
}

type parkEntry struct {
	g    *gInfo
	site string
	wake chan struct{}
}

// PanicRec is a panic recovered in a goroutine started through Go.
type PanicRec struct {
	Goroutine string
	Value     string
	Stack     string
}

// Scheduler is one schedule exploration run.
type Scheduler struct {
	mu        sync.Mutex
	seed      uint64
	parked    []*parkEntry
	byGoid    map[int64]*gInfo
	root      *gInfo
	Step      int
	MaxSteps  int
	kick      chan struct{}
	quit      chan struct{}
	stopping  atomic.Bool
	logH      hash.Hash
	Panics    []PanicRec
	Findings  []string // lock-discipline findings ("map_write_under_read_lock@site")
	Exhausted bool
	SpinSites map[string]int
	live      int
	done      chan struct{}
}

var sched atomic.Pointer[Scheduler]

func goid() int64 {
	var buf [64]byte
	n := runtime.Stack(buf[:], false)
	b := buf[:n]
	b = bytes.TrimPrefix(b, []byte("goroutine "))
	if i := bytes.IndexByte(b, ' '); i > 0 {
		id, _ := strconv.ParseInt(string(b[:i]), 10, 64)
		return id
	}
	return -1
}

// Start installs a scheduler; the calling goroutine becomes the root ("m"). Must be called inside a bubble.
func Start(seed uint64, maxSteps int) *Scheduler {
	s := &Scheduler{seed: seed, byGoid: map[int64]*gInfo{}, MaxSteps: maxSteps, kick: make(chan struct{}, 1), quit: make(chan struct{}), logH: sha256.New(), SpinSites: map[string]int{}, done: make(chan struct{})}
	s.root = &gInfo{id: "m", heldR: map[uintptr]int{}, heldW: map[uintptr]int{}}
	s.byGoid[goid()] = s.root
	sched.Store(s)
	go s.loop()
	return s
}

// Stop ends the exploration: every goroutine still parked (or parking later) unwinds through runtime.Goexit.
func (s *Scheduler) Stop() {
	s.stopping.Store(true)
	s.mu.Lock()
	ps := s.parked
	s.parked = nil
	s.mu.Unlock()
	for _, e := range ps {
		close(e.wake)
	}
	close(s.quit)
	<-s.done
	sched.Store(nil)
}

func (s *Scheduler) Digest() string { return hex.EncodeToString(s.logH.Sum(nil)) }

func (s *Scheduler) cur() *gInfo {
	id := goid()
	s.mu.Lock()
	defer s.mu.Unlock()
	g := s.byGoid[id]
	if g == nil {
		// a goroutine not started through Go (library code): it gets an id in arrival order
		g = &gInfo{id: fmt.Sprintf("x%d", len(s.byGoid)), heldR: map[uintptr]int{}, heldW: map[uintptr]int{}}
		s.byGoid[id] = g
	}
	return g
}

func (s *Scheduler) loop() {
	defer close(s.done)
	for {
		synctest.Wait()
		s.mu.Lock()
		if s.stopping.Load() {
			s.mu.Unlock()
			return
		}
		if len(s.parked) == 0 {
			s.mu.Unlock()
			select {
			case <-s.kick:
			case <-s.quit:
				return
			}
			continue
		}
		sort.Slice(s.parked, func(i, j int) bool {
			if s.parked[i].g.id != s.parked[j].g.id {
				return s.parked[i].g.id < s.parked[j].g.id
			}
			return s.parked[i].site < s.parked[j].site
		})
		h := fnv.New64a()
		var b [16]byte
		binary.BigEndian.PutUint64(b[:8], s.seed)
		binary.BigEndian.PutUint64(b[8:], uint64(s.Step))
		h.Write(b[:])
		idx := int(h.Sum64() % uint64(len(s.parked)))
		e := s.parked[idx]
		s.parked = append(s.parked[:idx], s.parked[idx+1:]...)
		s.Step++
		fmt.Fprintf(s.logH, "%d:%s@%s|%d\n", s.Step, e.g.id, e.site, len(s.parked))
		if s.Step > s.MaxSteps {
			s.Exhausted = true
			s.mu.Unlock()
			close(e.wake)
			// budget exhausted: let everybody unwind
			s.stopping.Store(true)
			s.mu.Lock()
			ps := s.parked
			s.parked = nil
			s.mu.Unlock()
			for _, p := range ps {
				close(p.wake)
			}
			return
		}
		s.mu.Unlock()
		close(e.wake)
	}
}

// Yield is a scheduling point. Without a scheduler it returns at once.
func Yield(site string) {
	s := sched.Load()
	if s == nil {
		return
	}
	if s.stopping.Load() {
		if s.cur() != s.root {
			runtime.Goexit()
		}
		return
	}
	g := s.cur()
	e := &parkEntry{g: g, site: site, wake: make(chan struct{})}
	s.mu.Lock()
	s.parked = append(s.parked, e)
	s.mu.Unlock()
	select {
	case s.kick <- struct{}{}:
	default:
	}
	<-e.wake
	if s.stopping.Load() && g != s.root {
		runtime.Goexit()
	}
}

// Go starts fn as a goroutine known to the scheduler (deterministic id parent.childIndex); panics are recorded.
func Go(site string, fn func()) {
	s := sched.Load()
	if s == nil {
		go fn()
		return
	}
	parent := s.cur()
	s.mu.Lock()
	parent.children++
	g := &gInfo{id: fmt.Sprintf("%s.%d", parent.id, parent.children), heldR: map[uintptr]int{}, heldW: map[uintptr]int{}}
	s.live++
	s.mu.Unlock()
	go func() {
		id := goid()
		s.mu.Lock()
		s.byGoid[id] = g
		s.mu.Unlock()
		defer func() {
			if x := recover(); x != nil {
				s.mu.Lock()
				s.Panics = append(s.Panics, PanicRec{Goroutine: g.id + " (" + site + ")", Value: fmt.Sprint(x), Stack: string(debug.Stack())})
				s.mu.Unlock()
			}
			s.mu.Lock()
			delete(s.byGoid, id)
			s.live--
			s.mu.Unlock()
		}()
		Yield(site + ":start")
		fn()
	}()
}

type tryLocker interface {
	TryLock() bool
	Unlock()
}

type tryRLocker interface {
	TryRLock() bool
	RUnlock()
}

func ptrOf(m interface{}) uintptr {
	switch x := m.(type) {
	case *sync.Mutex:
		return uintptr(unsafe.Pointer(x))
	case *sync.RWMutex:
		return uintptr(unsafe.Pointer(x))
	}
	return 0
}

// LockW acquires m for writing; under the scheduler it never blocks on the mutex (TryLock + yield).
func LockW(m sync.Locker, site string) {
	s := sched.Load()
	if s == nil {
		m.Lock()
		return
	}
	tl := m.(tryLocker)
	Yield(site)
	g := s.cur()
	for !tl.TryLock() {
		g.spins++
		s.mu.Lock()
		s.SpinSites[site]++
		s.mu.Unlock()
		Yield(site + ":spin")
	}
	g.spins = 0
	g.heldW[ptrOf(m)]++
}

// LockR acquires m for reading.
func LockR(m *sync.RWMutex, site string) {
	s := sched.Load()
	if s == nil {
		m.RLock()
		return
	}
	Yield(site)
	g := s.cur()
	for !m.TryRLock() {
		g.spins++
		s.mu.Lock()
		s.SpinSites[site]++
		s.mu.Unlock()
		Yield(site + ":spin")
	}
	g.spins = 0
	g.heldR[ptrOf(m)]++
}

func UnlockW(m sync.Locker, site string) {
	m.Unlock()
	if s := sched.Load(); s != nil {
		g := s.cur()
		if p := ptrOf(m); g.heldW[p] > 0 {
			g.heldW[p]--
		}
	}
}

func UnlockR(m *sync.RWMutex, site string) {
	m.RUnlock()
	if s := sched.Load(); s != nil {
		g := s.cur()
		if p := ptrOf(m); g.heldR[p] > 0 {
			g.heldR[p]--
		}
	}
}

// MapWrite is a lock-discipline probe: writing a map while holding some mutex for READING only is a bug
// whatever the schedule (two such writers, or a writer and a reader, can run at the same time in production).
func MapWrite(site string) {
	s := sched.Load()
	if s == nil {
		return
	}
	g := s.cur()
	r, w := 0, 0
	for _, n := range g.heldR {
		r += n
	}
	for _, n := range g.heldW {
		w += n
	}
	if r > 0 && w == 0 {
		s.mu.Lock()
		s.Findings = append(s.Findings, "map_write_under_read_lock@"+site)
		s.mu.Unlock()
	}
}

// Live is the number of goroutines started through Go that have not finished.
func (s *Scheduler) Live() int { s.mu.Lock(); defer s.mu.Unlock(); return s.live }
