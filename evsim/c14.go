package evsim

import (
	"bytes"
	"context"
	"errors"
	"fmt"
	"math/big"
	"math/rand/v2"
	"runtime/debug"
	"sync"
	"testing/synctest"
	"time"

	"cosmossdk.io/log"
	"github.com/EscanBE/evermint/v12/indexer"
	rpcbackend "github.com/EscanBE/evermint/v12/rpc/backend"
	rpctypes "github.com/EscanBE/evermint/v12/rpc/types"
	evmserver "github.com/EscanBE/evermint/v12/server"
	evertypes "github.com/EscanBE/evermint/v12/types"
	abci "github.com/cometbft/cometbft/abci/types"
	cmtbytes "github.com/cometbft/cometbft/libs/bytes"
	cmtproto "github.com/cometbft/cometbft/proto/tendermint/types"
	cmtrpcclient "github.com/cometbft/cometbft/rpc/client"
	coretypes "github.com/cometbft/cometbft/rpc/core/types"
	cmttypes "github.com/cometbft/cometbft/types"
	sdkdb "github.com/cosmos/cosmos-db"
	"github.com/cosmos/cosmos-sdk/client"
	"github.com/cosmos/cosmos-sdk/server"
	"github.com/ethereum/go-ethereum/common"
	"github.com/ethereum/go-ethereum/common/hexutil"
	ethtypes "github.com/ethereum/go-ethereum/core/types"
)

// ---- C14: transaction indexer and JSON-RPC views agree with consensus; crash/restart converges -------

// SimComet is the stub of the CometBFT RPC client the indexer service and the JSON-RPC backend talk to.
// It serves the blocks the consensus stub decided. Methods the repo does not call are left to the embedded
// nil interface: calling one is a stub gap (nil dereference -> infrastructure failure, never a verdict).
type SimComet struct {
	cmtrpcclient.Client
	mu          sync.Mutex
	node        *Node
	recs        map[int64]*BlockRecord
	byHash      map[string]int64
	head        int64
	subs        map[string]chan coretypes.ResultEvent
	FailFetch   int // the next n Block / BlockResults calls fail
	FailResults int // the next n BlockResults calls fail (the block itself can be fetched)
	Fetches     int
	Failed      int
	maxResults  int64 // highest height whose results were served
	consParams  func() *cmtproto.ConsensusParams
}

func NewSimComet(n *Node) *SimComet {
	return &SimComet{node: n, recs: map[int64]*BlockRecord{}, byHash: map[string]int64{}, subs: map[string]chan coretypes.ResultEvent{}}
}

// Publish makes a decided block visible and notifies header subscribers (never blocking, as the event bus).
func (c *SimComet) Publish(rec *BlockRecord) {
	c.mu.Lock()
	c.recs[rec.Height] = rec
	c.byHash[string(rec.Block.Hash())] = rec.Height
	c.head = rec.Height
	subs := make([]chan coretypes.ResultEvent, 0, len(c.subs))
	for _, ch := range c.subs {
		subs = append(subs, ch)
	}
	c.mu.Unlock()
	ev := coretypes.ResultEvent{Query: cmttypes.QueryForEvent(cmttypes.EventNewBlockHeader).String(), Data: cmttypes.EventDataNewBlockHeader{Header: rec.Block.Header}}
	for _, ch := range subs {
		select {
		case ch <- ev:
		default:
		}
	}
}

func (c *SimComet) Status(context.Context) (*coretypes.ResultStatus, error) {
	c.mu.Lock()
	defer c.mu.Unlock()
	st := &coretypes.ResultStatus{}
	st.SyncInfo.LatestBlockHeight = c.head
	st.SyncInfo.EarliestBlockHeight = 1
	if r := c.recs[c.head]; r != nil {
		st.SyncInfo.LatestBlockHash = r.Block.Hash()
		st.SyncInfo.LatestBlockTime = r.Time
	}
	return st, nil
}

func (c *SimComet) rec(h *int64) (*BlockRecord, error) {
	c.mu.Lock()
	defer c.mu.Unlock()
	c.Fetches++
	if c.FailFetch > 0 {
		c.FailFetch--
		c.Failed++
		return nil, errors.New("simulated rpc failure")
	}
	height := c.head
	if h != nil {
		height = *h
	}
	r := c.recs[height]
	if r == nil {
		return nil, fmt.Errorf("height %d is not available", height)
	}
	return r, nil
}

func resultBlock(r *BlockRecord) *coretypes.ResultBlock {
	ps, _ := r.Block.MakePartSet(cmttypes.BlockPartSizeBytes)
	return &coretypes.ResultBlock{BlockID: cmttypes.BlockID{Hash: r.Block.Hash(), PartSetHeader: ps.Header()}, Block: r.Block}
}

func (c *SimComet) Block(_ context.Context, h *int64) (*coretypes.ResultBlock, error) {
	r, err := c.rec(h)
	if err != nil {
		return nil, err
	}
	return resultBlock(r), nil
}

func (c *SimComet) BlockByHash(_ context.Context, hash []byte) (*coretypes.ResultBlock, error) {
	c.mu.Lock()
	h, ok := c.byHash[string(hash)]
	c.mu.Unlock()
	if !ok {
		return &coretypes.ResultBlock{}, nil
	}
	return c.Block(context.Background(), &h)
}

func (c *SimComet) BlockResults(_ context.Context, h *int64) (*coretypes.ResultBlockResults, error) {
	c.mu.Lock()
	if c.FailResults > 0 {
		c.FailResults--
		c.Failed++
		c.mu.Unlock()
		return nil, errors.New("simulated rpc failure (block results)")
	}
	c.mu.Unlock()
	r, err := c.rec(h)
	if err != nil {
		return nil, err
	}
	c.mu.Lock()
	if r.Height > c.maxResults {
		c.maxResults = r.Height
	}
	c.mu.Unlock()
	return &coretypes.ResultBlockResults{Height: r.Height, TxsResults: r.Res.TxResults, FinalizeBlockEvents: r.Res.Events,
		ValidatorUpdates: r.Res.ValidatorUpdates, ConsensusParamUpdates: r.Res.ConsensusParamUpdates, AppHash: r.Res.AppHash}, nil
}

func (c *SimComet) Header(_ context.Context, h *int64) (*coretypes.ResultHeader, error) {
	r, err := c.rec(h)
	if err != nil {
		return nil, err
	}
	return &coretypes.ResultHeader{Header: &r.Block.Header}, nil
}

func (c *SimComet) Subscribe(_ context.Context, subscriber, query string, _ ...int) (<-chan coretypes.ResultEvent, error) {
	c.mu.Lock()
	defer c.mu.Unlock()
	ch := make(chan coretypes.ResultEvent, 64)
	c.subs[subscriber+"/"+query] = ch
	return ch, nil
}

func (c *SimComet) Unsubscribe(_ context.Context, subscriber, query string) error {
	c.mu.Lock()
	defer c.mu.Unlock()
	delete(c.subs, subscriber+"/"+query)
	return nil
}

func (c *SimComet) UnsubscribeAll(_ context.Context, subscriber string) error { return nil }

func (c *SimComet) ABCIQuery(ctx context.Context, path string, data cmtbytes.HexBytes) (*coretypes.ResultABCIQuery, error) {
	return c.ABCIQueryWithOptions(ctx, path, data, cmtrpcclient.DefaultABCIQueryOptions)
}

func (c *SimComet) ABCIQueryWithOptions(_ context.Context, path string, data cmtbytes.HexBytes, opts cmtrpcclient.ABCIQueryOptions) (*coretypes.ResultABCIQuery, error) {
	res, err, pi := c.node.Query(&abci.RequestQuery{Path: path, Data: data, Height: opts.Height, Prove: opts.Prove})
	if pi != nil {
		return nil, fmt.Errorf("query panicked: %s", pi.Value)
	}
	if err != nil {
		return nil, err
	}
	return &coretypes.ResultABCIQuery{Response: *res}, nil
}

func (c *SimComet) ConsensusParams(_ context.Context, h *int64) (*coretypes.ResultConsensusParams, error) {
	c.mu.Lock()
	defer c.mu.Unlock()
	height := c.head
	if h != nil {
		height = *h
	}
	return &coretypes.ResultConsensusParams{BlockHeight: height, ConsensusParams: cmttypes.ConsensusParamsFromProto(*c.consParams())}, nil
}

func (c *SimComet) UnconfirmedTxs(context.Context, *int) (*coretypes.ResultUnconfirmedTxs, error) {
	return &coretypes.ResultUnconfirmedTxs{}, nil
}

func (c *SimComet) NumUnconfirmedTxs(context.Context) (*coretypes.ResultUnconfirmedTxs, error) {
	return &coretypes.ResultUnconfirmedTxs{}, nil
}

func (c *SimComet) HeaderByHash(_ context.Context, hash cmtbytes.HexBytes) (*coretypes.ResultHeader, error) {
	c.mu.Lock()
	h, ok := c.byHash[string(hash)]
	c.mu.Unlock()
	if !ok {
		return &coretypes.ResultHeader{}, nil
	}
	return c.Header(context.Background(), &h)
}

func (c *SimComet) Validators(_ context.Context, h *int64, _, _ *int) (*coretypes.ResultValidators, error) {
	return &coretypes.ResultValidators{BlockHeight: c.head}, nil
}

// ---- indexer service under kill / restart ---------------------------------------------------------------

// C14State is the per-run state of the indexer arm.
type C14State struct {
	Comet       *SimComet
	Disk        *SimDisk
	DB          *SimDB
	Idx         *indexer.KVIndexer
	Svc         *evmserver.EVMIndexerService
	StartHead   int64 // chain height when the current incarnation started
	FirstH      int64 // chain height when the service was first started (an uninterrupted run indexes FirstH+1 ..)
	Started     bool
	Kills       int
	SkippedUpTo int64
	EmptyRes    bool // a restart found the index empty although blocks with Ethereum txs had been offered before
	Offered     bool
	Faults      int
	cctx        client.Context
}

func (w *World) c14() *C14State {
	if w.C14 == nil {
		st := &C14State{Comet: NewSimComet(w.C.Node), Disk: NewSimDisk()}
		st.Comet.consParams = func() *cmtproto.ConsensusParams { return w.C.consParams }
		enc := EncodingConfig()
		st.cctx = client.Context{}.WithChainID(ChainID).WithHeight(1).WithTxConfig(enc.TxConfig).WithCodec(enc.Codec).WithInterfaceRegistry(enc.InterfaceRegistry).WithClient(st.Comet)
		w.C14 = st
		for _, rec := range w.C.Records {
			if rec.Res != nil {
				st.Comet.Publish(rec)
			}
		}
	}
	return w.C14
}

func c14Publish(w *World, rec *BlockRecord, txs []*TxInfo) {
	if rec.Res == nil {
		return
	}
	st := w.c14()
	st.Comet.Publish(rec)
	if st.Started {
		for _, t := range txs {
			if t.IsEthShape && t.HasEthEvent {
				st.Offered = true
			}
		}
	}
}

// settle lets fake time pass until the service is idle and caught up (or dead), within a bounded budget.
func (w *World) idxSettle(maxRounds int) bool {
	st := w.c14()
	for i := 0; i < maxRounds; i++ {
		synctest.Wait()
		if st.DB == nil || st.DB.alive() != nil {
			return false
		}
		if st.Idx != nil && st.Idx.IsReady() {
			st.Comet.mu.Lock()
			done := st.Comet.maxResults >= st.Comet.head || st.StartHead >= st.Comet.head
			st.Comet.mu.Unlock()
			if done {
				// one more quiescence point: the block fetched last has been handed to IndexBlock
				synctest.Wait()
				return st.DB.alive() == nil
			}
		}
		time.Sleep(60 * time.Millisecond)
	}
	return false
}

func opIdx(w *World, op *Op) {
	st := w.c14()
	r := w.R
	switch op.Mut {
	case "start":
		if st.Svc != nil {
			// the old incarnation is gone: freeze its disk handle first so that nothing it still does can reach the disk
			st.DB.Freeze()
			_ = st.Svc.Stop()
			synctest.Wait()
			st.Svc = nil
			r.Count("f:indexer_restart")
		}
		lose := 0
		if op.Ref > 0 && st.Started {
			lose = op.Ref
		}
		st.DB = st.Disk.Open(lose)
		st.Comet.mu.Lock()
		st.StartHead, st.Comet.maxResults = st.Comet.head, 0
		st.Comet.mu.Unlock()
		if st.DB.Lost > 0 {
			r.Add("f:indexer_lost_unsynced_writes", int64(st.DB.Lost))
		}
		if !st.Started {
			st.Started = true
			st.FirstH = st.Comet.head
		} else if last, _ := indexer.LoadLastBlock(st.DB); last == -1 && st.Offered {
			// the known hole: an empty index makes the service start from the head, whatever it was offered before
			st.EmptyRes = true
			if st.Comet.head > st.SkippedUpTo {
				st.SkippedUpTo = st.Comet.head
			}
		}
		st.Idx = indexer.NewKVIndexer(st.DB, log.NewNopLogger(), st.cctx)
		st.Svc = evmserver.NewEVMIndexerService(st.Idx, st.Comet)
		svc := st.Svc
		go func() { _ = svc.Start() }()
		synctest.Wait()
	case "kill":
		// arm the handle: it dies at its k-th write from now
		if st.DB != nil && st.DB.alive() == nil {
			st.DB.mu.Lock()
			st.DB.KillAt = st.DB.n + 1 + op.Ref
			st.DB.mu.Unlock()
			st.Faults++
		}
	case "killnow":
		if st.DB != nil {
			st.DB.Freeze()
			st.Faults++
			r.Count("f:indexer_killed_idle")
		}
	case "fetchfail":
		st.Comet.mu.Lock()
		if op.Note == "results" {
			st.Comet.FailResults += 1 + op.Ref%2
		} else {
			st.Comet.FailFetch += 1 + op.Ref
		}
		st.Comet.mu.Unlock()
		r.Count("f:indexer_fetch_errors_armed")
	case "settle":
		w.idxSettle(400)
		if st.DB != nil && st.DB.Killed {
			st.DB.Killed = false
			st.Kills++
			r.Count("f:indexer_killed_at_write")
		}
	}
}

// twinIndex is the index an uninterrupted run produces: IndexBlock for every block after the start height.
func (w *World) twinIndex(from int64) (*indexer.KVIndexer, sdkdb.DB) {
	return w.twinIndexRange(from, 1<<62)
}

func (w *World) twinIndexRange(from, to int64) (*indexer.KVIndexer, sdkdb.DB) {
	db := sdkdb.NewMemDB()
	idx := indexer.NewKVIndexer(db, log.NewNopLogger(), w.c14().cctx)
	for _, rec := range w.C.Records {
		if rec.Res == nil || rec.Height <= from || rec.Height > to {
			continue
		}
		if err := idx.IndexBlock(rec.Block, rec.Res.TxResults); err != nil {
			w.R.Violate("C14", "index_block_failed", nil, "IndexBlock(%d) failed: %v", rec.Height, err)
		}
	}
	return idx, db
}

func sameKVs(a, b []KV) (bool, string) {
	i, j := 0, 0
	for i < len(a) && j < len(b) {
		if c := bytes.Compare(a[i].K, b[j].K); c != 0 {
			if c < 0 {
				return false, fmt.Sprintf("key %x only in the first", a[i].K)
			}
			return false, fmt.Sprintf("key %x only in the second", b[j].K)
		}
		if !bytes.Equal(a[i].V, b[j].V) {
			return false, fmt.Sprintf("key %x: %x vs %x", a[i].K, a[i].V, b[j].V)
		}
		i++
		j++
	}
	if i < len(a) {
		return false, fmt.Sprintf("key %x only in the first", a[i].K)
	}
	if j < len(b) {
		return false, fmt.Sprintf("key %x only in the second", b[j].K)
	}
	return true, ""
}

type ethFact struct {
	Height  int64
	Pos     int   // position in the block
	K       int64 // index among the Ethereum txs of the block that passed admission
	T       *TxInfo
	Cum     uint64
	FirstLg uint
}

// ethFacts recomputes, from the consensus results alone, what the views must report.
func (w *World) ethFacts() []ethFact {
	var out []ethFact
	for _, rec := range w.C.Records {
		if rec.Res == nil {
			continue
		}
		k, cum, logs := int64(0), uint64(0), uint(0)
		for _, t := range ParseBlock(rec) {
			if !t.IsEthShape || !t.HasEthEvent || t.EthTx == nil {
				continue
			}
			cum += gasUsedForFee(t)
			f := ethFact{Height: rec.Height, Pos: t.Pos, K: k, T: t, Cum: cum, FirstLg: logs}
			if t.HasReceipt && t.Rc.Receipt != nil {
				logs += uint(len(t.Rc.Receipt.Logs))
			}
			out = append(out, f)
			k++
		}
	}
	return out
}

// c14Finish: faults stop, the service is restarted if dead, the chain idles; then all history checks.
func c14Finish(w *World) {
	st := w.c14()
	r := w.R
	if !st.Started || w.C.Halted {
		return
	}
	r.At(w.C.Height, -1)
	st.Comet.mu.Lock()
	st.Comet.FailFetch, st.Comet.FailResults = 0, 0
	fetchFaults := st.Comet.Failed
	st.Comet.mu.Unlock()
	// faults stop here: armed kills are disarmed, a dead service is restarted, the chain idles
	converged := false
	for attempt := 0; attempt < 3 && !converged; attempt++ {
		if st.DB.alive() != nil {
			opIdx(w, &Op{K: "idx", Mut: "start"})
		}
		st.DB.mu.Lock()
		st.DB.KillAt = 0
		st.DB.mu.Unlock()
		converged = w.idxSettle(2000)
	}
	r.Probe("indexer_killed_and_restarted", st.Kills > 0)
	r.Probe("indexer_restart_lost_unsynced_suffix", st.Disk != nil && r.Stats["f:indexer_lost_unsynced_writes"] > 0)
	if !converged {
		r.Violate("C14", "indexer_did_not_catch_up", nil, "after the last fault the indexing service did not reach the head within the fake-time budget (head %d)", st.Comet.head)
	}
	// --- convergence: same index as an uninterrupted run started at the same height
	twin, twinDB := w.twinIndex(st.FirstH)
	got, want := DumpDB(st.DB), DumpDB(twinDB)
	if ok, why := sameKVs(want, got); !ok {
		switch {
		case fetchFaults > 0 && !st.EmptyRes:
			// relaxation: under injected fetch errors a block may be missing, never wrong
			wrong := false
			wm := map[string][]byte{}
			for _, kv := range want {
				wm[string(kv.K)] = kv.V
			}
			for _, kv := range got {
				if v, ok := wm[string(kv.K)]; !ok || !bytes.Equal(v, kv.V) {
					wrong = true
				}
			}
			switch {
			case wrong:
				r.Violate("C14", "index_wrong_after_fetch_errors", nil, "index holds entries an uninterrupted run does not have: %s", why)
			case fetchFaults <= 10:
				// the service gives a block up only after more than 10 failed attempts during start-up: with fewer failed
				// fetches in the whole run every block is eventually indexed once the errors stop
				r.Violate("C14", "blocks_missing_after_fetch_errors_stopped", nil, "%d fetches failed in the whole run; after they stopped and the service caught up, blocks are still missing from the index: %s", fetchFaults, why)
			default:
				r.Cross["c14:blocks_missing_after_fetch_errors"]++
			}
		default:
			cause := "other"
			if st.EmptyRes {
				// attributable to the empty-index restart only if nothing is wrong and everything missing lies in the skipped range
				allowed := map[string]bool{}
				_, skipDB := w.twinIndexRange(st.FirstH, st.SkippedUpTo)
				for _, kv := range DumpDB(skipDB) {
					allowed[string(kv.K)] = true
				}
				wm := map[string][]byte{}
				for _, kv := range want {
					wm[string(kv.K)] = kv.V
				}
				gm := map[string]bool{}
				okOnlyMissing := true
				for _, kv := range got {
					gm[string(kv.K)] = true
					if v, ok := wm[string(kv.K)]; !ok || !bytes.Equal(v, kv.V) {
						okOnlyMissing = false
					}
				}
				for _, kv := range want {
					if !gm[string(kv.K)] && !allowed[string(kv.K)] {
						okOnlyMissing = false
					}
				}
				if okOnlyMissing {
					cause = "restart_found_index_empty"
				}
			}
			r.Violate("C14", "crash_restart_diverges", map[string]string{"cause": cause}, "after %d kills and restarts the index differs from the index of an uninterrupted run started at height %d: %s (%d vs %d entries)", st.Kills, st.FirstH, why, len(want), len(got))
		}
	}
	// --- the index is a function of the chain alone, not of the order in which one indexer instance was given the blocks
	// (back-filling history, filling a hole): descending, or newest third first
	{
		var recs []*BlockRecord
		for _, rec := range w.C.Records {
			if rec.Res != nil && rec.Height > st.FirstH {
				recs = append(recs, rec)
			}
		}
		order := make([]*BlockRecord, 0, len(recs))
		if r.Seed%2 == 0 {
			for i := len(recs) - 1; i >= 0; i-- {
				order = append(order, recs[i])
			}
		} else {
			cut := len(recs) * 2 / 3
			order = append(append(order, recs[cut:]...), recs[:cut]...)
		}
		altDB := sdkdb.NewMemDB()
		alt := indexer.NewKVIndexer(altDB, log.NewNopLogger(), st.cctx)
		for _, rec := range order {
			if err := alt.IndexBlock(rec.Block, rec.Res.TxResults); err != nil {
				r.Violate("C14", "index_block_failed", map[string]string{"order": "not_ascending"}, "IndexBlock(%d) failed: %v", rec.Height, err)
			}
		}
		r.Count("o:index_built_in_another_order")
		if ok, why := sameKVs(DumpDB(twinDB), DumpDB(altDB)); !ok {
			r.Violate("C14", "index_depends_on_indexing_order", nil, "one instance given the same %d blocks in another order built a different index: %s", len(order), why)
		}
	}
	// --- idempotence / order: indexing blocks again, old after new, changes nothing
	before := DumpDB(twinDB)
	for i := len(w.C.Records) - 1; i >= 0; i-- {
		if rec := w.C.Records[i]; rec.Res != nil && rec.Height > st.FirstH && i%2 == 0 {
			_ = twin.IndexBlock(rec.Block, rec.Res.TxResults)
		}
	}
	if ok, why := sameKVs(before, DumpDB(twinDB)); !ok {
		r.Violate("C14", "reindex_changes_index", nil, "indexing blocks a second time, in another order, changed the index: %s", why)
	}
	c14Agreement(w, twin)
}

// c14Agreement: indexer lookups and JSON-RPC views against the independently parsed consensus results.
func c14Agreement(w *World, idx *indexer.KVIndexer) {
	st := w.c14()
	r := w.R
	sctx := server.NewDefaultContext()
	sctx.Viper.Set("telemetry.global-labels", []interface{}{})
	var be *rpcbackend.Backend
	func() {
		defer func() {
			if x := recover(); x != nil {
				r.Cross["c14:backend_construction_panicked"]++
			}
		}()
		be = rpcbackend.NewBackend(sctx, log.NewNopLogger(), st.cctx, idx)
	}()
	facts := w.ethFacts()
	guard := func(what string, f func()) {
		defer func() {
			if x := recover(); x != nil {
				pi := &PanicInfo{Value: fmt.Sprint(x), Stack: string(debug.Stack())}
				r.Violate("C14", "view_panicked", map[string]string{"view": what, "site": panicSite(pi)}, "%s panicked: %v\n%s", what, x, clip(pi.Stack))
			}
		}()
		f()
	}
	for _, f := range facts {
		if f.Height <= st.FirstH {
			continue
		}
		f := f
		t := f.T
		h := t.EthTx.Hash()
		r.At(f.Height, f.Pos)
		r.Count("o:c14_eth_txs_checked")
		failed := !t.HasReceipt || t.Rc.HasErr
		// indexer
		guard("indexer", func() {
			a, errA := idx.GetByTxHash(h)
			b, errB := idx.GetByBlockAndIndex(f.Height, int32(f.K))
			if errA != nil || a == nil {
				r.Violate("C14", "indexed_tx_not_found", map[string]string{"by": "hash"}, "tx %s (block %d position %d) cannot be found by hash: %v", h.Hex(), f.Height, f.Pos, errA)
				return
			}
			if a.Height != f.Height || int(a.TxIndex) != f.Pos {
				r.Violate("C14", "index_position", map[string]string{"by": "hash"}, "tx %s: index says block %d position %d, consensus says block %d position %d", h.Hex(), a.Height, a.TxIndex, f.Height, f.Pos)
			}
			if int64(a.EthTxIndex) != f.K {
				r.Violate("C14", "index_eth_tx_index", map[string]string{"by": "hash"}, "tx %s: index says Ethereum tx index %d, consensus results say %d", h.Hex(), a.EthTxIndex, f.K)
			}
			if a.Failed != failed {
				r.Violate("C14", "index_failed_flag", nil, "tx %s: index says failed=%v, consensus says failed=%v", h.Hex(), a.Failed, failed)
			}
			if errB != nil || b == nil {
				r.Violate("C14", "indexed_tx_not_found", map[string]string{"by": "block_and_index"}, "tx %s cannot be found by (block %d, index %d): %v", h.Hex(), f.Height, f.K, errB)
			} else if b.Height != a.Height || b.TxIndex != a.TxIndex || b.EthTxIndex != a.EthTxIndex || b.Failed != a.Failed {
				r.Violate("C14", "lookups_disagree", nil, "tx %s: by hash %+v, by (block, index) %+v", h.Hex(), *a, *b)
			}
		})
		if be == nil {
			continue
		}
		// JSON-RPC views
		guard("eth_getTransactionByHash", func() {
			tx, err := be.GetTransactionByHash(h)
			if err != nil || tx == nil {
				r.Violate("C14", "rpc_tx_not_found", nil, "eth_getTransactionByHash(%s) = nil, %v", h.Hex(), err)
				return
			}
			if tx.From != t.From {
				r.Violate("C14", "rpc_tx_field", map[string]string{"field": "from"}, "eth_getTransactionByHash(%s).from = %s, sender is %s", h.Hex(), tx.From.Hex(), t.From.Hex())
			}
			if tx.BlockNumber == nil || tx.BlockNumber.ToInt().Int64() != f.Height {
				r.Violate("C14", "rpc_tx_field", map[string]string{"field": "blockNumber"}, "eth_getTransactionByHash(%s).blockNumber = %v, block is %d", h.Hex(), tx.BlockNumber, f.Height)
			}
			if tx.TransactionIndex == nil || int64(*tx.TransactionIndex) != f.K {
				r.Violate("C14", "rpc_tx_field", map[string]string{"field": "transactionIndex"}, "eth_getTransactionByHash(%s).transactionIndex = %v, consensus says %d", h.Hex(), ptrU(tx.TransactionIndex), f.K)
			}
		})
		guard("eth_getTransactionByBlockNumberAndIndex", func() {
			tx, err := be.GetTransactionByBlockNumberAndIndex(rpctypes.BlockNumber(f.Height), hexutil.Uint(f.K))
			if err != nil || tx == nil {
				r.Violate("C14", "rpc_tx_not_found", map[string]string{"by": "block_and_index"}, "eth_getTransactionByBlockNumberAndIndex(%d, %d) = nil, %v; expected %s", f.Height, f.K, err, h.Hex())
			} else if tx.Hash != h {
				r.Violate("C14", "rpc_tx_by_index_is_another_tx", nil, "eth_getTransactionByBlockNumberAndIndex(%d, %d) = %s, expected %s", f.Height, f.K, tx.Hash.Hex(), h.Hex())
			}
		})
		guard("eth_getTransactionReceipt", func() {
			rc, err := be.GetTransactionReceipt(h)
			if err != nil || rc == nil {
				r.Violate("C14", "rpc_receipt_not_found", map[string]string{"committed": fmt.Sprint(t.HasReceipt)}, "eth_getTransactionReceipt(%s) = nil, %v", h.Hex(), err)
				return
			}
			wantStatus := uint64(1)
			if failed {
				wantStatus = 0
			}
			if uint64(rc.Status) != wantStatus {
				r.Violate("C14", "rpc_receipt_field", map[string]string{"field": "status", "committed": fmt.Sprint(t.HasReceipt)}, "receipt(%s).status = %d, consensus says %d", h.Hex(), rc.Status, wantStatus)
			}
			if uint64(rc.GasUsed) != gasUsedForFee(t) {
				r.Violate("C14", "rpc_receipt_field", map[string]string{"field": "gasUsed", "committed": fmt.Sprint(t.HasReceipt)}, "receipt(%s).gasUsed = %d, consensus says %d", h.Hex(), rc.GasUsed, gasUsedForFee(t))
			}
			if uint64(rc.CumulativeGasUsed) != f.Cum {
				r.Violate("C14", "rpc_receipt_field", map[string]string{"field": "cumulativeGasUsed", "committed": fmt.Sprint(t.HasReceipt)}, "receipt(%s).cumulativeGasUsed = %d, running sum over the block's admitted Ethereum txs is %d", h.Hex(), rc.CumulativeGasUsed, f.Cum)
			}
			if int64(rc.TransactionIndex) != f.K {
				r.Violate("C14", "rpc_receipt_field", map[string]string{"field": "transactionIndex", "committed": fmt.Sprint(t.HasReceipt)}, "receipt(%s).transactionIndex = %d, consensus says %d", h.Hex(), rc.TransactionIndex, f.K)
			}
			if rc.From != t.From || uint64(rc.BlockNumber) != uint64(f.Height) {
				r.Violate("C14", "rpc_receipt_field", map[string]string{"field": "from_or_block"}, "receipt(%s): from %s block %d, consensus: from %s block %d", h.Hex(), rc.From.Hex(), rc.BlockNumber, t.From.Hex(), f.Height)
			}
			var want []*ethtypes.Log
			if t.HasReceipt && t.Rc.Receipt != nil {
				want = t.Rc.Receipt.Logs
			}
			if !sameLogs(rc.Logs, want) {
				r.Violate("C14", "rpc_receipt_field", map[string]string{"field": "logs"}, "receipt(%s) has %d logs, consensus results have %d (or contents differ)", h.Hex(), len(rc.Logs), len(want))
			} else {
				for i, l := range rc.Logs {
					if l.Index != f.FirstLg+uint(i) || int64(l.TxIndex) != f.K || l.BlockNumber != uint64(f.Height) || l.TxHash != h {
						r.Violate("C14", "rpc_receipt_field", map[string]string{"field": "log_indices"}, "receipt(%s) log %d: index %d txIndex %d block %d, expected index %d txIndex %d block %d", h.Hex(), i, l.Index, l.TxIndex, l.BlockNumber, f.FirstLg+uint(i), f.K, f.Height)
						break
					}
				}
			}
		})
	}
	if be == nil {
		return
	}
	// block views and unknown / out-of-range lookups
	byHeight := map[int64][]ethFact{}
	for _, f := range facts {
		byHeight[f.Height] = append(byHeight[f.Height], f)
	}
	for _, rec := range w.C.Records {
		if rec.Res == nil || rec.Height <= st.FirstH {
			continue
		}
		rec := rec
		r.At(rec.Height, -1)
		guard("eth_getBlockByNumber", func() {
			blk, err := be.GetBlockByNumber(rpctypes.BlockNumber(rec.Height), true)
			if err != nil || blk == nil {
				r.Violate("C14", "rpc_block_not_found", nil, "eth_getBlockByNumber(%d) = nil, %v", rec.Height, err)
				return
			}
			txs, _ := blk["transactions"].([]interface{})
			var hashes []common.Hash
			for _, x := range txs {
				if rt, ok := x.(*rpctypes.RPCTransaction); ok {
					hashes = append(hashes, rt.Hash)
				}
			}
			want := byHeight[rec.Height]
			okk := len(hashes) == len(want)
			for i := 0; okk && i < len(want); i++ {
				okk = hashes[i] == want[i].T.EthTx.Hash()
			}
			if !okk {
				r.Violate("C14", "rpc_block_transactions", nil, "eth_getBlockByNumber(%d) lists %d transactions, the block has %d Ethereum txs that passed admission (or the order differs)", rec.Height, len(hashes), len(want))
			}
			// the block's own gas used is the cumulative gas of its last Ethereum transaction (executed, failed or
			// aborted by the block gas meter alike), and every listed transaction carries its position
			wantGas := uint64(0)
			if len(want) > 0 {
				wantGas = want[len(want)-1].Cum
			}
			r.Count("o:c14_block_views_checked")
			r.Probe("c14_block_view_with_aborted_tx_after_two_receipts", len(want) > 2 && !want[len(want)-1].T.HasReceipt)
			if gu, ok := blk["gasUsed"].(*hexutil.Big); !ok || gu == nil || gu.ToInt().Cmp(new(big.Int).SetUint64(wantGas)) != 0 {
				r.Violate("C14", "rpc_block_field", map[string]string{"field": "gasUsed"}, "eth_getBlockByNumber(%d).gasUsed = %v, the cumulative gas of the block's last Ethereum tx in the consensus results is %d", rec.Height, blk["gasUsed"], wantGas)
			}
			for i, x := range txs {
				rt, ok := x.(*rpctypes.RPCTransaction)
				if !ok || !okk {
					break
				}
				if rt.BlockNumber == nil || rt.BlockNumber.ToInt().Int64() != rec.Height || rt.TransactionIndex == nil || uint64(*rt.TransactionIndex) != uint64(i) || rt.From != want[i].T.From {
					r.Violate("C14", "rpc_block_field", map[string]string{"field": "transaction_position_or_sender"}, "eth_getBlockByNumber(%d): transaction %d is reported with block %v index %v sender %s (sender by consensus: %s)", rec.Height, i, rt.BlockNumber, ptrU(rt.TransactionIndex), rt.From.Hex(), want[i].T.From.Hex())
					break
				}
			}
			if bh, ok := blk["hash"].(hexutil.Bytes); ok {
				blk2, err := be.GetBlockByHash(common.BytesToHash(bh), false)
				if err != nil || blk2 == nil {
					r.Violate("C14", "rpc_block_not_found", map[string]string{"by": "hash"}, "eth_getBlockByHash of the hash reported for block %d = nil, %v", rec.Height, err)
				} else if fmt.Sprint(blk2["gasUsed"]) != fmt.Sprint(blk["gasUsed"]) || fmt.Sprint(blk2["number"]) != fmt.Sprint(blk["number"]) || fmt.Sprint(blk2["logsBloom"]) != fmt.Sprint(blk["logsBloom"]) {
					r.Violate("C14", "rpc_block_field", map[string]string{"field": "by_hash_vs_by_number"}, "block %d by hash and by number disagree on gasUsed / number / logsBloom", rec.Height)
				}
			}
		})
		guard("eth_getLogs", func() {
			h := rec.Height
			lg, err := be.GetLogsByHeight(&h)
			if err != nil {
				r.Violate("C14", "rpc_logs_failed", nil, "logs of block %d: %v", rec.Height, err)
				return
			}
			var flat, want []*ethtypes.Log
			for _, l := range lg {
				flat = append(flat, l...)
			}
			for _, f := range byHeight[rec.Height] {
				if f.T.HasReceipt && f.T.Rc.Receipt != nil {
					want = append(want, f.T.Rc.Receipt.Logs...)
				}
			}
			if !sameLogs(flat, want) {
				r.Violate("C14", "rpc_block_logs", nil, "logs of block %d: %d reported, consensus results have %d (or contents differ)", rec.Height, len(flat), len(want))
			} else {
				for i, l := range flat {
					if l.Index != uint(i) {
						r.Violate("C14", "rpc_block_logs", map[string]string{"field": "index"}, "logs of block %d: log %d has index %d", rec.Height, i, l.Index)
						break
					}
				}
			}
		})
	}
	guard("unknown_lookups", func() {
		unknown := common.BigToHash(big.NewInt(0xdead))
		if tx, _ := be.GetTransactionByHash(unknown); tx != nil {
			r.Violate("C14", "unknown_hash_found", nil, "eth_getTransactionByHash of an unknown hash returned a transaction")
		}
		if rc, _ := be.GetTransactionReceipt(unknown); rc != nil {
			r.Violate("C14", "unknown_hash_found", map[string]string{"view": "receipt"}, "eth_getTransactionReceipt of an unknown hash returned a receipt")
		}
		if tx, _ := be.GetTransactionByBlockNumberAndIndex(rpctypes.BlockNumber(w.C.Height), hexutil.Uint(9999)); tx != nil {
			r.Violate("C14", "out_of_range_index_found", nil, "eth_getTransactionByBlockNumberAndIndex with index 9999 returned a transaction")
		}
		if tx, _ := be.GetTransactionByBlockNumberAndIndex(rpctypes.BlockNumber(w.C.Height+1000), hexutil.Uint(0)); tx != nil {
			r.Violate("C14", "out_of_range_index_found", map[string]string{"what": "height"}, "a transaction was returned for a height beyond the head")
		}
		if x, _ := idx.GetByBlockAndIndex(w.C.Height, 9999); x != nil {
			r.Violate("C14", "out_of_range_index_found", map[string]string{"what": "indexer"}, "the indexer returned a record for index 9999")
		}
	})
}

func ptrU(p *hexutil.Uint64) interface{} {
	if p == nil {
		return nil
	}
	return uint64(*p)
}

// ---- generator ------------------------------------------------------------------------------------------

func genC14(rng *rand.Rand, seed uint64, tier string) *Script {
	g, _ := mixedGenesis(rng)
	g.Erc20Native = true
	// small block gas limits make "exceeded the block gas limit" outcomes common
	g.MaxGas = pick(rng, int64(40_000_000), 2_000_000, 700_000, 400_000, -1)
	g.BaseFee = pick(rng, "1000000000", "7", "0")
	g.MinGasPrice = pick(rng, "0", "0", "0.5")
	s := &Script{Prop: "C14", Seed: seed, Gen: g, Extra: map[string]string{}}
	mode := pick(rng, "clean", "kills", "kills", "kills", "fetch")
	ops := []Op{{K: "block", Dt: 5}}
	// sometimes the chain already has history when the service first starts
	for i, n := 0, pick(rng, 0, 0, 2); i < n; i++ {
		ops = append(ops, genMixedTx(rng, &g), Op{K: "block", Dt: 5})
	}
	ops = append(ops, Op{K: "idx", Mut: "start"})
	nb := 3 + rng.IntN(8)
	for b := 0; b < nb; b++ {
		for i, n := 0, rng.IntN(7); i < n; i++ {
			ops = append(ops, genMixedTx(rng, &g))
		}
		if rng.IntN(6) == 0 {
			// a crowded block: dozens of Ethereum txs (several index writes if the indexer ever splits its batch)
			for i, n := 0, 17+rng.IntN(30); i < n; i++ {
				w := rng.IntN(g.Wallets)
				ops = append(ops, Op{K: "eth", W: w, To: fmt.Sprintf("w%d", (w+1)%g.Wallets), Val: "1", Gas: "i", Price: "b+1"})
			}
			if mode == "kills" && rng.IntN(2) == 0 {
				ops = append(ops, Op{K: "idx", Mut: "kill", Ref: rng.IntN(3)})
			}
		}
		ops = append(ops, Op{K: "block", Dt: pick(rng, 1, 5, 5), Prop: rng.IntN(3), Byz: rng.IntN(3) == 0})
		switch mode {
		case "kills":
			switch rng.IntN(8) {
			case 0, 1: // die at the k-th index write from now
				ops = append(ops, Op{K: "idx", Mut: "kill", Ref: rng.IntN(3)})
			case 2: // let it run, then restart (possibly after a power cut that loses unsynced writes)
				ops = append(ops, Op{K: "idx", Mut: "settle"}, Op{K: "idx", Mut: "start", Ref: pick(rng, 0, 0, 1, 2, 5)})
			case 3:
				ops = append(ops, Op{K: "idx", Mut: "killnow"})
			case 4:
				ops = append(ops, Op{K: "idx", Mut: "settle"})
			}
		case "fetch":
			if rng.IntN(10) == 0 {
				// the service is down for a few blocks, comes back and has to catch up while the results of one of the
				// blocks cannot be fetched at the first attempt
				ops = append(ops, Op{K: "idx", Mut: "killnow"})
				for i, n := 0, 2+rng.IntN(3); i < n; i++ {
					w := rng.IntN(g.Wallets)
					ops = append(ops, Op{K: "eth", W: w, To: fmt.Sprintf("w%d", (w+1)%g.Wallets), Val: "1", Gas: "i", Price: "b+1"}, Op{K: "block", Dt: 5})
				}
				ops = append(ops, Op{K: "idx", Mut: "start"}, Op{K: "idx", Mut: "fetchfail", Ref: rng.IntN(2), Note: "results"}, Op{K: "idx", Mut: "settle"})
			}
			if rng.IntN(3) == 0 {
				ops = append(ops, Op{K: "idx", Mut: "fetchfail", Ref: rng.IntN(4), Note: pick(rng, "", "results", "results")})
			}
			if rng.IntN(3) == 0 {
				ops = append(ops, Op{K: "idx", Mut: "settle"})
			}
		default:
			if rng.IntN(3) == 0 {
				ops = append(ops, Op{K: "idx", Mut: "settle"})
			}
		}
	}
	ops = append(ops, Op{K: "block", Dt: 5})
	s.Ops = ops
	return s
}

func runC14(rt *Runtime, r *RunCtx, s *Script) {
	rt.Bubble(s.WallOffsetS, func() {
		w := NewWorld(r, s)
		for i, name := range TemplateNames {
			w.Labels[name] = GenesisContractAddr(i)
		}
		w.OnBlock = append(w.OnBlock, c14Publish)
		checkInit(r, w.C)
		for i := range s.Ops {
			w.Exec(i, &s.Ops[i])
		}
		c14Finish(w)
		// the bubble must end with no goroutine of the service alive
		if st := w.C14; st != nil && st.Svc != nil {
			st.DB.Freeze()
			_ = st.Svc.Stop()
			synctest.Wait()
		}
	})
}

var _ evertypes.EVMTxIndexer = (*indexer.KVIndexer)(nil)

func init() {
	opHandlers["idx"] = opIdx
	Arms["C14"] = &Arm{Gen: genC14, Run: runC14}
}
