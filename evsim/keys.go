package evsim

import (
	"crypto/ecdsa"
	"crypto/ed25519"
	"encoding/binary"
	"fmt"

	"github.com/EscanBE/evermint/v12/crypto/ethsecp256k1"
	cmted25519 "github.com/cometbft/cometbft/crypto/ed25519"
	cosmosed25519 "github.com/cosmos/cosmos-sdk/crypto/keys/ed25519"
	cryptotypes "github.com/cosmos/cosmos-sdk/crypto/types"
	sdk "github.com/cosmos/cosmos-sdk/types"
	"github.com/ethereum/go-ethereum/common"
	ethcrypto "github.com/ethereum/go-ethereum/crypto"
)

// Wallet is a key-holding account of the simulation. Keys are a pure function of (tag, index) so that
// scripts can refer to wallets by index and replay exactly.
type Wallet struct {
	Name  string
	Priv  *ethsecp256k1.PrivKey
	ECDSA *ecdsa.PrivateKey
	Addr  common.Address
}

func (w *Wallet) Acc() sdk.AccAddress        { return sdk.AccAddress(w.Addr.Bytes()) }
func (w *Wallet) Val() sdk.ValAddress        { return sdk.ValAddress(w.Addr.Bytes()) }
func (w *Wallet) Bech32() string             { return w.Acc().String() }
func (w *Wallet) PubKey() cryptotypes.PubKey { return w.Priv.PubKey() }

func deriveSeed(tag string, i int) []byte {
	var b [8]byte
	binary.BigEndian.PutUint64(b[:], uint64(i))
	return ethcrypto.Keccak256([]byte("evsim/"+tag), b[:])
}

func NewWallet(tag string, i int) *Wallet {
	seed := deriveSeed(tag, i)
	priv := &ethsecp256k1.PrivKey{Key: seed}
	ec, err := priv.ToECDSA()
	if err != nil {
		panic(err)
	}
	return &Wallet{
		Name:  fmt.Sprintf("%s%d", tag, i),
		Priv:  priv,
		ECDSA: ec,
		Addr:  ethcrypto.PubkeyToAddress(ec.PublicKey),
	}
}

// ValidatorKey is a consensus key plus the operator wallet.
type ValidatorKey struct {
	Operator *Wallet
	ConsPriv cmted25519.PrivKey
	ConsPub  cmted25519.PubKey
	SdkPub   *cosmosed25519.PubKey
}

func (v *ValidatorKey) ConsAddr() sdk.ConsAddress { return sdk.ConsAddress(v.ConsPub.Address()) }

func NewValidatorKey(i int) *ValidatorKey {
	op := NewWallet("val", i)
	seed := deriveSeed("cons", i)
	priv := cmted25519.PrivKey(ed25519.NewKeyFromSeed(seed))
	pub := priv.PubKey().(cmted25519.PubKey)
	return &ValidatorKey{
		Operator: op,
		ConsPriv: priv,
		ConsPub:  pub,
		SdkPub:   &cosmosed25519.PubKey{Key: []byte(pub)},
	}
}
