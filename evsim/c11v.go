package evsim

import (
	"bytes"
	"encoding/hex"
	"math/big"

	distrtypes "github.com/cosmos/cosmos-sdk/x/distribution/types"
	stakingtypes "github.com/cosmos/cosmos-sdk/x/staking/types"
	sdk "github.com/cosmos/cosmos-sdk/types"
	"github.com/cosmos/gogoproto/proto"
	"github.com/ethereum/go-ethereum/common"
	"github.com/ethereum/go-ethereum/core/vm"
)

// ---- C11: the views inside a transaction ---------------------------------------------------------------
//
// c11Views compares the view methods with the native queries between blocks, where every EVM instance is
// fresh. The "view witness" contract reads the views INSIDE a transaction, around a state-changing call of
// its own: rewardsOf(this), balanceOf(this); the action; rewardsOf(this), balanceOf(this),
// totalDelegationOf(this), which it logs. When the transaction is the last one of its block nothing changes
// the delegator's rewards or delegations until the block is committed, so the logged numbers must equal the
// native queries on the committed state (the bank balance is taken from the store right after the tx).

var viewWitTopic = common.BigToHash(big.NewInt(0x5157))

// TmplViewWit: calldata = word0 staking precompile address | call data of the action.
func TmplViewWit() []byte {
	a := NewAsm()
	view := func(sig string, out int) {
		a.Push(Selector(sig)).Push(0xe0).Op(vm.SHL).Push(0).Op(vm.MSTORE)
		a.Op(vm.ADDRESS).Push(4).Op(vm.MSTORE)
		a.Push(32).Push(out).Push(36).Push(0).Push(0).Op(vm.CALLDATALOAD).Op(vm.GAS, vm.STATICCALL, vm.POP)
	}
	view("rewardsOf(address)", 0x1e0) // r1, logged
	view("balanceOf(address)", 0x40)
	// without action data: transfer(this, SELFBALANCE + r1/2) - an amount only the pending rewards can cover
	a.Push(32).Op(vm.CALLDATASIZE, vm.GT).PushLabel("given").Op(vm.JUMPI)
	a.Push(Selector("transfer(address,uint256)")).Push(0xe0).Op(vm.SHL).Push(0x100).Op(vm.MSTORE)
	a.Op(vm.ADDRESS).Push(0x104).Op(vm.MSTORE)
	a.Push(2).Push(0x1e0).Op(vm.MLOAD, vm.DIV, vm.SELFBALANCE, vm.ADD).Push(0x124).Op(vm.MSTORE)
	a.Push(0).Push(0).Push(0x44).Push(0x100).Push(0).Push(0).Op(vm.CALLDATALOAD).Op(vm.GAS, vm.CALL)
	a.Push(0x200).Op(vm.MSTORE)
	a.PushLabel("after").Op(vm.JUMP)
	a.Label("given")
	a.Push(32).Op(vm.CALLDATASIZE, vm.SUB)                      // insize
	a.Op(vm.DUP1).Push(32).Push(0x100).Op(vm.CALLDATACOPY)     // insize
	a.Push(0).Push(0).Op(vm.DUP3).Push(0x100).Push(0).Push(0).Op(vm.CALLDATALOAD).Op(vm.GAS, vm.CALL)
	a.Push(0x200).Op(vm.MSTORE, vm.POP)
	a.Label("after")
	view("rewardsOf(address)", 0x220)
	view("balanceOf(address)", 0x240)
	view("totalDelegationOf(address)", 0x260)
	a.Push(viewWitTopic).Push(0xa0).Push(0x1e0).Op(vm.LOG1, vm.STOP) // r1 | success | rewardsOf | balanceOf | totalDelegationOf
	return a.Bytes()
}

// opViewWit: K=vw, W sender, Mut = staking method (the action), A its arguments.
func opViewWit(w *World, op *Op) {
	stk, ok := w.ResolveAddr("staking")
	vw, ok2 := w.Labels["vw"]
	md, ok3 := pcMethods["staking"][op.Mut]
	if op.Mut == "transfer_covered_by_rewards" {
		ok3 = true
	}
	if !ok || !ok2 || !ok3 || md.Dyn {
		return
	}
	var args []interface{}
	for _, a := range op.A {
		if a == "caller" {
			args = append(args, vw)
		} else if x, ok := w.ResolveAddr(a); ok {
			args = append(args, x)
		} else {
			args = append(args, relNum(a, new(big.Int), "_"))
		}
	}
	data := Word(stk)
	if op.Mut != "transfer_covered_by_rewards" {
		data = append(data, CallData(md.Sig, args...)...)
	}
	eop := Op{K: "eth", W: op.W, To: vw.Hex(), Data: hex.EncodeToString(data), Gas: "i+6000000", Price: op.Price}
	s := w.BuildEthOp(&eop)
	s.Meta = map[string]string{"vw": op.Mut}
	w.R.Count("o:c11_view_witness_sent")
	w.Submit(s, "")
}

// c11ViewWitness judges the view witness of the block just committed (if its last tx is one).
func c11ViewWitness(w *World) {
	r := w.R
	vw, ok := w.Labels["vw"]
	if !ok || len(w.C.Records) == 0 || w.C.Halted {
		return
	}
	rec := w.C.Records[len(w.C.Records)-1]
	if rec.Res == nil {
		return
	}
	txs := ParseBlock(rec)
	if len(txs) == 0 {
		return
	}
	t := txs[len(txs)-1]
	if t.EthTx == nil || t.Obs == nil || t.Obs.After == nil || !t.HasReceipt || t.Rc.Receipt == nil || t.EthTx.To() == nil || *t.EthTx.To() != vw {
		return
	}
	s := w.ByHash[t.EthTx.Hash()]
	if s == nil || s.Meta["vw"] == "" {
		return
	}
	var words []byte
	r1 := new(big.Int)
	for _, l := range t.Rc.Receipt.Logs {
		if l.Address == vw && len(l.Topics) == 1 && l.Topics[0] == viewWitTopic && len(l.Data) == 0xa0 {
			words = l.Data[32:]
			r1 = new(big.Int).SetBytes(l.Data[:32])
		}
	}
	if words == nil {
		return
	}
	r.At(rec.Height, t.Pos)
	action := s.Meta["vw"]
	okAction := new(big.Int).SetBytes(words[:32]).Sign() != 0
	bech := sdk.AccAddress(vw.Bytes()).String()
	res, ok := w.grpcQuery("/cosmos.distribution.v1beta1.Query/DelegationTotalRewards", &distrtypes.QueryDelegationTotalRewardsRequest{DelegatorAddress: bech}, 0)
	if !ok || res.Code != 0 {
		return
	}
	var qr distrtypes.QueryDelegationTotalRewardsResponse
	if err := proto.Unmarshal(res.Value, &qr); err != nil {
		return
	}
	natT := qr.Total.AmountOf(BaseDenom).TruncateInt().BigInt()
	total := new(big.Int)
	for _, v := range w.G.Validators {
		res, ok := w.grpcQuery("/cosmos.staking.v1beta1.Query/Delegation", &stakingtypes.QueryDelegationRequest{DelegatorAddr: bech, ValidatorAddr: valBech32(v.Operator.Addr)}, 0)
		if ok && res.Code == 0 {
			var dr stakingtypes.QueryDelegationResponse
			if err := proto.Unmarshal(res.Value, &dr); err == nil && dr.DelegationResponse != nil {
				total.Add(total, dr.DelegationResponse.Balance.Amount.BigInt())
			}
		}
	}
	bank := ViewOf(t.Obs.After).Balance(vw, BaseDenom)
	r.Count("o:c11_view_witness_checked")
	r.Probe("view_witness_after_successful_"+action, okAction)
	r.Probe("view_witness_with_rewards_before_action", natT.Sign() > 0 || (okAction && (action == "withdrawRewards" || action == "withdrawReward")))
	if action == "transfer_covered_by_rewards" {
		// transfer() withdraws the pending rewards first (each validator's share above the documented minimum of a
		// thousandth of a coin) and then stakes the amount: with at least one whole coin pending, half of the rewards
		// on top of the liquid balance is covered whatever the split over validators
		oneCoin := new(big.Int).Exp(big.NewInt(10), big.NewInt(18), nil)
		r.Probe("staking_transfer_needing_pending_rewards_judged", r1.Cmp(oneCoin) >= 0)
		if r1.Cmp(oneCoin) >= 0 && !okAction {
			r.Violate("C11", "transfer_refused_although_covered_by_pending_rewards", nil, "transfer(self, liquid balance + half of the pending rewards %s) was refused; withdrawing the rewards and delegating the amount natively succeeds", r1)
		}
	}
	disc := map[string]string{"after": action, "action_succeeded": map[bool]string{true: "true", false: "false"}[okAction]}
	if got := words[32:64]; !bytes.Equal(got, Word(natT)) {
		disc["view"] = "rewardsOf"
		r.Violate("C11", "view_inside_tx_differs_from_native_query", disc, "rewardsOf(this) read inside the tx after %s = %s, the native query on the committed block says %s", action, new(big.Int).SetBytes(got), natT)
	}
	if got := words[64:96]; !bytes.Equal(got, Word(new(big.Int).Add(bank, natT))) {
		disc["view"] = "balanceOf"
		r.Violate("C11", "view_inside_tx_differs_from_native_query", disc, "balanceOf(this) read inside the tx after %s = %s, bank balance after the tx %s + native rewards %s", action, new(big.Int).SetBytes(got), bank, natT)
	}
	if got := words[96:128]; !bytes.Equal(got, Word(total)) {
		disc["view"] = "totalDelegationOf"
		r.Violate("C11", "view_inside_tx_differs_from_native_query", disc, "totalDelegationOf(this) read inside the tx after %s = %s, native delegations sum to %s", action, new(big.Int).SetBytes(got), total)
	}
}

func init() {
	opHandlers["vw"] = opViewWit
}
