package evsim

import (
	"context"
	"math/big"

	sdkmath "cosmossdk.io/math"
	evertypes "github.com/EscanBE/evermint/v12/types"
	evmtypes "github.com/EscanBE/evermint/v12/x/evm/types"
	"github.com/cosmos/cosmos-sdk/client"
	codectypes "github.com/cosmos/cosmos-sdk/codec/types"
	sdk "github.com/cosmos/cosmos-sdk/types"
	"github.com/cosmos/cosmos-sdk/types/tx/signing"
	authsigning "github.com/cosmos/cosmos-sdk/x/auth/signing"
	authtx "github.com/cosmos/cosmos-sdk/x/auth/tx"
	"github.com/cosmos/gogoproto/proto"
	"github.com/ethereum/go-ethereum/common"
	ethtypes "github.com/ethereum/go-ethereum/core/types"
)

var evmChainIDBig = big.NewInt(EvmChainID)

// EthTx describes an Ethereum transaction to be built and signed.
type EthTx struct {
	Type     int // 0 legacy, 1 access list, 2 dynamic fee
	Nonce    uint64
	To       *common.Address
	Value    *big.Int
	Data     []byte
	Gas      uint64
	GasPrice *big.Int // type 0/1
	FeeCap   *big.Int // type 2
	TipCap   *big.Int // type 2
	Access   ethtypes.AccessList
	ChainID  *big.Int // nil = the chain's id
	// adversarial knobs
	Unprotected bool            // homestead signature (legacy only)
	SignWith    *Wallet         // sign with another key than From
	DeclareFrom *common.Address // declare another From than the signer
}

func (e *EthTx) inner() ethtypes.TxData {
	cid := e.ChainID
	if cid == nil {
		cid = evmChainIDBig
	}
	val := e.Value
	if val == nil {
		val = new(big.Int)
	}
	switch e.Type {
	case 2:
		return &ethtypes.DynamicFeeTx{ChainID: cid, Nonce: e.Nonce, GasTipCap: e.TipCap, GasFeeCap: e.FeeCap, Gas: e.Gas, To: e.To, Value: val, Data: e.Data, AccessList: e.Access}
	case 1:
		return &ethtypes.AccessListTx{ChainID: cid, Nonce: e.Nonce, GasPrice: e.GasPrice, Gas: e.Gas, To: e.To, Value: val, Data: e.Data, AccessList: e.Access}
	default:
		return &ethtypes.LegacyTx{Nonce: e.Nonce, GasPrice: e.GasPrice, Gas: e.Gas, To: e.To, Value: val, Data: e.Data}
	}
}

// SignEth returns the signed go-ethereum transaction.
func SignEth(w *Wallet, e *EthTx) *ethtypes.Transaction {
	cid := e.ChainID
	if cid == nil {
		cid = evmChainIDBig
	}
	var signer ethtypes.Signer = ethtypes.LatestSignerForChainID(cid)
	if e.Unprotected && e.Type == 0 {
		signer = ethtypes.HomesteadSigner{}
	}
	k := w
	if e.SignWith != nil {
		k = e.SignWith
	}
	tx, err := ethtypes.SignNewTx(k.ECDSA, signer, e.inner())
	if err != nil {
		panic(err)
	}
	return tx
}

// WrapOpts lets adversarial workloads deviate from the canonical Cosmos envelope of an Ethereum tx.
type WrapOpts struct {
	Memo          string
	TimeoutHeight uint64
	NoExtOpt      bool
	ExtraExtOpt   proto.Message
	NonCritExtOpt proto.Message
	FeeOverride   *sdk.Coins
	GasOverride   *uint64
	FeePayer      sdk.AccAddress
	FeeGranter    sdk.AccAddress
	ExtraMsgs     []sdk.Msg
	Sigs          []signing.SignatureV2
}

// EthMsg builds the MsgEthereumTx for a signed tx.
func EthMsg(tx *ethtypes.Transaction, from common.Address) *evmtypes.MsgEthereumTx {
	bz, err := tx.MarshalBinary()
	if err != nil {
		panic(err)
	}
	return &evmtypes.MsgEthereumTx{MarshalledTx: bz, From: sdk.AccAddress(from.Bytes()).String()}
}

// WrapEth encodes an Ethereum message into Cosmos tx bytes.
func WrapEth(msg *evmtypes.MsgEthereumTx, gas uint64, fee *big.Int, o *WrapOpts) []byte {
	enc := EncodingConfig()
	b := enc.TxConfig.NewTxBuilder()
	eb := b.(authtx.ExtensionOptionsTxBuilder)
	if o == nil {
		o = &WrapOpts{}
	}
	var opts []*codectypes.Any
	if !o.NoExtOpt {
		a, err := codectypes.NewAnyWithValue(&evmtypes.ExtensionOptionsEthereumTx{})
		if err != nil {
			panic(err)
		}
		opts = append(opts, a)
	}
	if o.ExtraExtOpt != nil {
		a, err := codectypes.NewAnyWithValue(o.ExtraExtOpt)
		if err != nil {
			panic(err)
		}
		opts = append(opts, a)
	}
	if len(opts) > 0 {
		eb.SetExtensionOptions(opts...)
	}
	if o.NonCritExtOpt != nil {
		a, err := codectypes.NewAnyWithValue(o.NonCritExtOpt)
		if err != nil {
			panic(err)
		}
		eb.SetNonCriticalExtensionOptions(a)
	}
	msgs := append([]sdk.Msg{msg}, o.ExtraMsgs...)
	if err := b.SetMsgs(msgs...); err != nil {
		panic(err)
	}
	fees := sdk.Coins{}
	if fee.Sign() > 0 {
		fees = sdk.Coins{sdk.NewCoin(BaseDenom, sdkmath.NewIntFromBigInt(fee))}
	}
	if o.FeeOverride != nil {
		fees = *o.FeeOverride
	}
	b.SetFeeAmount(fees)
	if o.GasOverride != nil {
		gas = *o.GasOverride
	}
	b.SetGasLimit(gas)
	b.SetMemo(o.Memo)
	b.SetTimeoutHeight(o.TimeoutHeight)
	if o.FeePayer != nil {
		b.SetFeePayer(o.FeePayer)
	}
	if o.FeeGranter != nil {
		b.SetFeeGranter(o.FeeGranter)
	}
	if len(o.Sigs) > 0 {
		if err := b.SetSignatures(o.Sigs...); err != nil {
			panic(err)
		}
	}
	bz, err := enc.TxConfig.TxEncoder()(b.GetTx())
	if err != nil {
		panic(err)
	}
	return bz
}

// BuildEthTx signs and encodes in the canonical way. It returns the bytes and the signed inner tx.
func BuildEthTx(w *Wallet, e *EthTx) ([]byte, *ethtypes.Transaction) {
	tx := SignEth(w, e)
	from := w.Addr
	if e.DeclareFrom != nil {
		from = *e.DeclareFrom
	}
	msg := EthMsg(tx, from)
	price := tx.GasPrice()
	if tx.Type() == ethtypes.DynamicFeeTxType {
		price = tx.GasFeeCap()
	}
	fee := new(big.Int).Mul(price, new(big.Int).SetUint64(tx.Gas()))
	return WrapEth(msg, tx.Gas(), fee, nil), tx
}

// CosmosTx describes a Cosmos-lane transaction.
type CosmosTx struct {
	Msgs     []sdk.Msg
	Gas      uint64
	Fee      sdk.Coins
	AccNum   uint64
	Seq      uint64
	Memo     string
	Timeout  uint64
	DynTip   *sdkmath.Int // adds ExtensionOptionDynamicFeeTx
	ChainID  string       // "" = the chain's
	SignSeq  *uint64      // sign with another sequence than declared
	NoSig    bool
	ExtOpt   proto.Message
	FeeGrant sdk.AccAddress
}

// BuildCosmosTx signs (SIGN_MODE_DIRECT) and encodes.
func BuildCosmosTx(w *Wallet, c *CosmosTx) []byte {
	enc := EncodingConfig()
	txCfg := enc.TxConfig
	b := txCfg.NewTxBuilder()
	if err := b.SetMsgs(c.Msgs...); err != nil {
		panic(err)
	}
	b.SetGasLimit(c.Gas)
	b.SetFeeAmount(c.Fee)
	b.SetMemo(c.Memo)
	b.SetTimeoutHeight(c.Timeout)
	if c.FeeGrant != nil {
		b.SetFeeGranter(c.FeeGrant)
	}
	if c.DynTip != nil || c.ExtOpt != nil {
		var m proto.Message = c.ExtOpt
		if c.DynTip != nil {
			m = &evertypes.ExtensionOptionDynamicFeeTx{MaxPriorityPrice: *c.DynTip}
		}
		a, err := codectypes.NewAnyWithValue(m)
		if err != nil {
			panic(err)
		}
		b.(authtx.ExtensionOptionsTxBuilder).SetExtensionOptions(a)
	}
	if !c.NoSig {
		signCosmos(w, b, txCfg, c)
	}
	bz, err := txCfg.TxEncoder()(b.GetTx())
	if err != nil {
		panic(err)
	}
	return bz
}

func signCosmos(w *Wallet, b client.TxBuilder, txCfg client.TxConfig, c *CosmosTx) {
	mode := signing.SignMode_SIGN_MODE_DIRECT
	sig := signing.SignatureV2{
		PubKey:   w.PubKey(),
		Data:     &signing.SingleSignatureData{SignMode: mode},
		Sequence: c.Seq,
	}
	if err := b.SetSignatures(sig); err != nil {
		panic(err)
	}
	chainID := c.ChainID
	if chainID == "" {
		chainID = ChainID
	}
	seq := c.Seq
	if c.SignSeq != nil {
		seq = *c.SignSeq
	}
	sd := authsigning.SignerData{
		ChainID: chainID, AccountNumber: c.AccNum, Sequence: seq,
		PubKey: w.PubKey(), Address: w.Bech32(),
	}
	bz, err := authsigning.GetSignBytesAdapter(context.Background(), txCfg.SignModeHandler(), mode, sd, b.GetTx())
	if err != nil {
		panic(err)
	}
	s, err := w.Priv.Sign(bz)
	if err != nil {
		panic(err)
	}
	sig.Data = &signing.SingleSignatureData{SignMode: mode, Signature: s}
	if err := b.SetSignatures(sig); err != nil {
		panic(err)
	}
}
