package evsim

import (
	"bufio"
	"encoding/binary"
	"encoding/json"
	"fmt"
	"math/rand/v2"
	"os"
	"runtime/debug"
	"strconv"
	"strings"
	"testing"
	"testing/synctest"
	"time"

	gometrics "github.com/rcrowley/go-metrics"
	"golang.org/x/crypto/sha3"
)

func TestMain(m *testing.M) {
	// the go-metrics arbiter goroutine must be born outside any synctest bubble
	gometrics.NewMeter().Stop()
	_ = EncodingConfig()
	os.Exit(m.Run())
}

// RunSeed derives the seed of run #n of a property from the batch seed.
func RunSeed(batch uint64, prop string, n int) uint64 {
	h := sha3.NewLegacyKeccak256()
	var b [16]byte
	binary.BigEndian.PutUint64(b[:8], batch)
	binary.BigEndian.PutUint64(b[8:], uint64(n))
	h.Write(b[:])
	h.Write([]byte(prop))
	return binary.BigEndian.Uint64(h.Sum(nil)[:8])
}

func newRng(seed uint64) *rand.Rand { return rand.New(rand.NewPCG(seed, 0x9e3779b97f4a7c15)) }

// bubbleEpoch is the fake clock's origin inside every synctest bubble.
var bubbleEpoch = time.Date(2000, 1, 1, 0, 0, 0, 0, time.UTC)

// Runtime gives arms access to fresh synctest bubbles (one per node incarnation with its own wall clock).
type Runtime struct {
	t     *testing.T
	Infra string
}

// Bubble runs fn inside a new bubble whose wall clock starts at bubbleEpoch + offsetS seconds.
func (rt *Runtime) Bubble(offsetS int64, fn func()) {
	defer func() {
		if x := recover(); x != nil {
			msg := fmt.Sprint(x)
			if strings.Contains(msg, "deadlock: main bubble goroutine has exited") {
				return
			}
			rt.Infra = fmt.Sprintf("panic outside ABCI capture: %v\n%s", x, debug.Stack())
		}
	}()
	synctest.Test(rt.t, func(t *testing.T) {
		defer func() {
			if x := recover(); x != nil {
				rt.Infra = fmt.Sprintf("harness panic: %v\n%s", x, debug.Stack())
			}
		}()
		if offsetS > 0 {
			time.Sleep(time.Duration(offsetS) * time.Second)
		}
		fn()
	})
}

// ExecScript runs one script (each node incarnation in its own bubble) and returns the report.
func ExecScript(t *testing.T, prop string, s *Script, keepLog bool) (rep *RunReport) {
	arm := Arms[prop]
	r := NewRunCtx(prop, s.Seed)
	r.Script = s
	r.KeepLog = keepLog
	start := time.Now()
	rt := &Runtime{t: t}
	arm.Run(rt, r, s)
	rep = r.Report()
	rep.WallMs = time.Since(start).Milliseconds()
	rep.Infra = rt.Infra
	if keepLog {
		for _, l := range r.LogLines {
			fmt.Println(l)
		}
	}
	return rep
}

// TestEvsim is the worker entry point. Environment:
//
//	EVSIM_PROP     property id
//	EVSIM_SEED     batch seed (VERIF_SEED)
//	EVSIM_FROM/TO  run numbers [from, to) of this worker
//	EVSIM_TIER     quick | thorough
//	EVSIM_OUT      output file (JSON lines)
//	EVSIM_REPLAY   replay file: execute its script instead of generating
//	EVSIM_DEADLINE unix seconds after which no new run is started
func TestEvsim(t *testing.T) {
	prop := os.Getenv("EVSIM_PROP")
	if prop == "" {
		t.Skip("EVSIM_PROP not set")
	}
	arm := Arms[prop]
	if arm == nil {
		t.Fatalf("no arm for %s", prop)
	}
	out := os.Stdout
	if p := os.Getenv("EVSIM_OUT"); p != "" {
		f, err := os.Create(p)
		if err != nil {
			t.Fatal(err)
		}
		defer f.Close()
		out = f
	}
	bw := bufio.NewWriter(out)
	defer bw.Flush()
	enc := json.NewEncoder(bw)

	if rp := os.Getenv("EVSIM_REPLAY"); rp != "" {
		bz, err := os.ReadFile(rp)
		if err != nil {
			t.Fatal(err)
		}
		var rf ReplayFile
		if err := json.Unmarshal(bz, &rf); err != nil {
			t.Fatal(err)
		}
		rep := ExecScript(t, prop, rf.Script, os.Getenv("EVSIM_LOG") != "")
		rep.Script = rf.Script
		_ = enc.Encode(rep)
		return
	}

	batch, _ := strconv.ParseUint(os.Getenv("EVSIM_SEED"), 10, 64)
	from, _ := strconv.Atoi(os.Getenv("EVSIM_FROM"))
	to, _ := strconv.Atoi(os.Getenv("EVSIM_TO"))
	tier := os.Getenv("EVSIM_TIER")
	deadline, _ := strconv.ParseInt(os.Getenv("EVSIM_DEADLINE"), 10, 64)
	for n := from; n < to; n++ {
		if deadline > 0 && time.Now().Unix() >= deadline {
			break
		}
		seed := RunSeed(batch, prop, n)
		s := arm.Gen(newRng(seed), seed, tier)
		rep := ExecScript(t, prop, s, os.Getenv("EVSIM_LOG") != "")
		if n == from || len(rep.Viol) > 0 {
			// keep one sample script per worker
			bz, _ := json.Marshal(s)
			rep.Sample = bz
		}
		if err := enc.Encode(rep); err != nil {
			t.Fatal(err)
		}
		bw.Flush()
	}
}

// ReplayFile is the on-disk form of a violation.
type ReplayFile struct {
	Property  string     `json:"property"`
	Violation *Violation `json:"violation"`
	Seed      uint64     `json:"seed"`
	RepoTree  string     `json:"repo_tree,omitempty"`
	Toolchain string     `json:"toolchain,omitempty"`
	Digest    string     `json:"digest"`
	Minimised bool       `json:"minimised"`
	Script    *Script    `json:"script"`
}
