package evsim

import (
	cmdcfg "github.com/EscanBE/evermint/v12/cmd/config"
	sdk "github.com/cosmos/cosmos-sdk/types"
)

func init() {
	cfg := sdk.GetConfig()
	cmdcfg.SetBech32Prefixes(cfg)
	cmdcfg.SetBip44CoinType(cfg)
	cfg.Seal()
}
