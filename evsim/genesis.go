package evsim

import (
	"encoding/json"
	"fmt"
	"math/big"
	"sort"
	"strings"
	"time"

	sdkmath "cosmossdk.io/math"
	chainapp "github.com/EscanBE/evermint/v12/app"
	"github.com/EscanBE/evermint/v12/app/params"
	"github.com/EscanBE/evermint/v12/constants"
	cpctypes "github.com/EscanBE/evermint/v12/x/cpc/types"
	evmtypes "github.com/EscanBE/evermint/v12/x/evm/types"
	feemarkettypes "github.com/EscanBE/evermint/v12/x/feemarket/types"
	abci "github.com/cometbft/cometbft/abci/types"
	cmtproto "github.com/cometbft/cometbft/proto/tendermint/types"
	cmttypes "github.com/cometbft/cometbft/types"
	codectypes "github.com/cosmos/cosmos-sdk/codec/types"
	sdk "github.com/cosmos/cosmos-sdk/types"
	authtypes "github.com/cosmos/cosmos-sdk/x/auth/types"
	vestingtypes "github.com/cosmos/cosmos-sdk/x/auth/vesting/types"
	banktypes "github.com/cosmos/cosmos-sdk/x/bank/types"
	distrtypes "github.com/cosmos/cosmos-sdk/x/distribution/types"
	govtypes "github.com/cosmos/cosmos-sdk/x/gov/types"
	govv1types "github.com/cosmos/cosmos-sdk/x/gov/types/v1"
	minttypes "github.com/cosmos/cosmos-sdk/x/mint/types"
	slashingtypes "github.com/cosmos/cosmos-sdk/x/slashing/types"
	stakingtypes "github.com/cosmos/cosmos-sdk/x/staking/types"
	"github.com/ethereum/go-ethereum/common"
)

const (
	ChainID       = constants.TestnetFullChainId // evermint_80808-1
	EvmChainID    = constants.TestnetEIP155ChainId
	BaseDenom     = constants.BaseDenom
	GenesisUnix   = int64(1_700_000_000) // block-time origin of every simulated chain
	valBondTokens = 10                   // x 1e18
)

// GenContract is a contract placed in genesis.
type GenContract struct {
	Addr    string            `json:"addr"`
	Code    string            `json:"code"` // hex, no 0x
	Storage map[string]string `json:"storage,omitempty"`
	Balance string            `json:"balance,omitempty"`
	Bal2    string            `json:"bal2,omitempty"` // balance in the first extra denom
}

// GenVesting places a vesting account in genesis. Times are offsets (seconds) from GenesisUnix.
type GenVesting struct {
	Kind     string `json:"kind"`   // continuous | delayed | periodic | permanent
	Wallet   int    `json:"wallet"` // index in the "vest" key family (the account has a key)
	Addr     string `json:"addr,omitempty"`
	StartOff int64  `json:"start_off"`
	EndOff   int64  `json:"end_off"`
	Amount   string `json:"amount"`          // original vesting (base denom)
	Extra    string `json:"extra,omitempty"` // additional free balance (base denom)
	Denom2   string `json:"denom2,omitempty"`
	// Delegated: the whole original vesting is delegated to validator 0 in genesis, so the account's
	// bank balance is zero (an "empty" but unexpired vesting account).
	Delegated bool `json:"delegated,omitempty"`
}

// GenesisSpec is the complete, serialisable description of a genesis state. Everything the simulator
// builds is a pure function of it.
type GenesisSpec struct {
	Validators    int           `json:"validators"`
	Wallets       int           `json:"wallets"`
	WalletBalance string        `json:"wallet_balance"` // per wallet, base denom
	ExtraDenoms   []string      `json:"extra_denoms,omitempty"`
	MaxGas        int64         `json:"max_gas"`
	MaxBytes      int64         `json:"max_bytes"`
	BaseFee       string        `json:"base_fee"`
	MinGasPrice   string        `json:"min_gas_price"` // decimal
	Erc20Native   bool          `json:"erc20_native"`
	StakingCpc    bool          `json:"staking_cpc"`
	CpcWhitelist  []int         `json:"cpc_whitelist,omitempty"`
	CpcVersion    uint32        `json:"cpc_version,omitempty"`
	DisableCreate bool          `json:"disable_create,omitempty"`
	DisableCall   bool          `json:"disable_call,omitempty"`
	Contracts     []GenContract `json:"contracts,omitempty"`
	Vesting       []GenVesting  `json:"vesting,omitempty"`
	VotingPeriodS int64         `json:"voting_period_s,omitempty"`
	UnbondingS    int64         `json:"unbonding_s,omitempty"`
	NoInflation   bool          `json:"no_inflation,omitempty"`
}

func DefaultGenesisSpec() GenesisSpec {
	return GenesisSpec{
		Validators:    2,
		Wallets:       6,
		WalletBalance: "1000000000000000000000", // 1000e18
		ExtraDenoms:   []string{"utwo"},
		MaxGas:        40_000_000,
		MaxBytes:      2_000_000,
		BaseFee:       "1000000000",
		MinGasPrice:   "0",
		Erc20Native:   true,
		StakingCpc:    true,
		VotingPeriodS: 600,
		UnbondingS:    3600,
	}
}

func mustBig(s string) *big.Int {
	if s == "" {
		return new(big.Int)
	}
	v, ok := new(big.Int).SetString(s, 10)
	if !ok {
		panic("bad integer " + s)
	}
	return v
}

// Built is what BuildGenesis returns.
type Built struct {
	Spec       GenesisSpec
	Validators []*ValidatorKey
	Wallets    []*Wallet
	VestKeys   []*Wallet
	InitChain  *abci.RequestInitChain
	ValSet     *cmttypes.ValidatorSet
}

var encCfgCache *params.EncodingConfig

// EncodingConfig returns the process-wide encoding config (registering interfaces twice panics in amino).
func EncodingConfig() params.EncodingConfig {
	if encCfgCache == nil {
		c := chainapp.RegisterEncodingConfig()
		encCfgCache = &c
	}
	return *encCfgCache
}

func BuildGenesis(spec GenesisSpec) *Built {
	enc := EncodingConfig()
	cdc := enc.Codec
	b := &Built{Spec: spec}

	for i := 0; i < spec.Validators; i++ {
		b.Validators = append(b.Validators, NewValidatorKey(i))
	}
	for i := 0; i < spec.Wallets; i++ {
		b.Wallets = append(b.Wallets, NewWallet("w", i))
	}

	genesisState := chainapp.ModuleBasics.DefaultGenesis(cdc)

	var accounts []authtypes.GenesisAccount
	var balances []banktypes.Balance
	totalSupply := sdk.NewCoins()
	accNum := uint64(0)
	addAcc := func(a authtypes.GenesisAccount, coins sdk.Coins) {
		accounts = append(accounts, a)
		if !coins.IsZero() {
			balances = append(balances, banktypes.Balance{Address: a.GetAddress().String(), Coins: coins})
			totalSupply = totalSupply.Add(coins...)
		}
	}
	walletCoins := sdk.NewCoins(sdk.NewCoin(BaseDenom, sdkmath.NewIntFromBigInt(mustBig(spec.WalletBalance))))
	for _, d := range spec.ExtraDenoms {
		walletCoins = walletCoins.Add(sdk.NewCoin(d, sdkmath.NewIntFromBigInt(mustBig(spec.WalletBalance))))
	}

	// validators' operator accounts
	var cmtVals []*cmttypes.Validator
	var validators []stakingtypes.Validator
	var delegations []stakingtypes.Delegation
	var signingInfos []slashingtypes.SigningInfo
	bondAmt := sdk.DefaultPowerReduction.MulRaw(valBondTokens)
	for _, v := range b.Validators {
		acc := authtypes.NewBaseAccount(v.Operator.Acc(), nil, accNum, 0)
		accNum++
		addAcc(acc, walletCoins)
		cmtVals = append(cmtVals, cmttypes.NewValidator(v.ConsPub, valBondTokens))
		pkAny, err := codectypes.NewAnyWithValue(v.SdkPub)
		if err != nil {
			panic(err)
		}
		validators = append(validators, stakingtypes.Validator{
			OperatorAddress:   v.Operator.Val().String(),
			ConsensusPubkey:   pkAny,
			Status:            stakingtypes.Bonded,
			Tokens:            bondAmt,
			DelegatorShares:   sdkmath.LegacyNewDecFromInt(bondAmt),
			Description:       stakingtypes.Description{Moniker: v.Operator.Name},
			UnbondingTime:     time.Unix(0, 0).UTC(),
			Commission:        stakingtypes.NewCommission(sdkmath.LegacyNewDecWithPrec(5, 2), sdkmath.LegacyNewDecWithPrec(20, 2), sdkmath.LegacyNewDecWithPrec(1, 2)),
			MinSelfDelegation: sdkmath.OneInt(),
		})
		delegations = append(delegations, stakingtypes.NewDelegation(v.Operator.Bech32(), v.Operator.Val().String(), sdkmath.LegacyNewDecFromInt(bondAmt)))
		signingInfos = append(signingInfos, slashingtypes.SigningInfo{
			Address:              v.ConsAddr().String(),
			ValidatorSigningInfo: slashingtypes.ValidatorSigningInfo{Address: v.ConsAddr().String()},
		})
		totalSupply = totalSupply.Add(sdk.NewCoin(BaseDenom, bondAmt))
	}
	b.ValSet = cmttypes.NewValidatorSet(cmtVals)

	for _, w := range b.Wallets {
		acc := authtypes.NewBaseAccount(w.Acc(), nil, accNum, 0)
		accNum++
		addAcc(acc, walletCoins)
	}

	// vesting accounts
	type extraDel struct {
		addr sdk.AccAddress
		amt  sdkmath.Int
	}
	var extraDelegations []extraDel
	for i, vs := range spec.Vesting {
		k := NewWallet("vest", vs.Wallet)
		b.VestKeys = append(b.VestKeys, k)
		addr := k.Acc()
		if vs.Addr != "" {
			addr = sdk.AccAddress(common.HexToAddress(vs.Addr).Bytes())
		}
		base := authtypes.NewBaseAccount(addr, nil, accNum, 0)
		accNum++
		orig := sdk.NewCoins(sdk.NewCoin(BaseDenom, sdkmath.NewIntFromBigInt(mustBig(vs.Amount))))
		if vs.Denom2 != "" {
			orig = orig.Add(sdk.NewCoin(vs.Denom2, sdkmath.NewIntFromBigInt(mustBig(vs.Amount))))
		}
		bva, err := vestingtypes.NewBaseVestingAccount(base, orig, GenesisUnix+vs.EndOff)
		if err != nil {
			panic(fmt.Sprintf("vesting %d: %v", i, err))
		}
		if vs.Delegated {
			bva.DelegatedVesting = sdk.NewCoins(sdk.NewCoin(BaseDenom, sdkmath.NewIntFromBigInt(mustBig(vs.Amount))))
			extraDelegations = append(extraDelegations, extraDel{addr, sdkmath.NewIntFromBigInt(mustBig(vs.Amount))})
		}
		var ga authtypes.GenesisAccount
		switch vs.Kind {
		case "continuous":
			ga = vestingtypes.NewContinuousVestingAccountRaw(bva, GenesisUnix+vs.StartOff)
		case "delayed":
			ga = vestingtypes.NewDelayedVestingAccountRaw(bva)
		case "periodic":
			half := mustBig(vs.Amount)
			h1 := new(big.Int).Rsh(half, 1)
			h2 := new(big.Int).Sub(half, h1)
			mk := func(x *big.Int) sdk.Coins {
				c := sdk.NewCoins(sdk.NewCoin(BaseDenom, sdkmath.NewIntFromBigInt(x)))
				if vs.Denom2 != "" {
					c = c.Add(sdk.NewCoin(vs.Denom2, sdkmath.NewIntFromBigInt(x)))
				}
				return c
			}
			total := vs.EndOff - vs.StartOff
			p1 := total / 2
			p2 := total - p1
			ga = vestingtypes.NewPeriodicVestingAccountRaw(bva, GenesisUnix+vs.StartOff, vestingtypes.Periods{
				{Length: p1, Amount: mk(h1)}, {Length: p2, Amount: mk(h2)},
			})
		case "permanent":
			bva.EndTime = 0
			ga = &vestingtypes.PermanentLockedAccount{BaseVestingAccount: bva}
		default:
			panic("unknown vesting kind " + vs.Kind)
		}
		coins := orig
		if vs.Delegated {
			coins = coins.Sub(sdk.NewCoin(BaseDenom, sdkmath.NewIntFromBigInt(mustBig(vs.Amount))))
		}
		if vs.Extra != "" {
			coins = coins.Add(sdk.NewCoin(BaseDenom, sdkmath.NewIntFromBigInt(mustBig(vs.Extra))))
		}
		addAcc(ga, coins)
	}

	// pre-deployed contracts
	var evmAccounts []evmtypes.GenesisAccount
	for _, c := range spec.Contracts {
		addr := common.HexToAddress(c.Addr)
		acc := authtypes.NewBaseAccount(sdk.AccAddress(addr.Bytes()), nil, accNum, 0)
		accNum++
		coins := sdk.NewCoins()
		if c.Balance != "" {
			coins = sdk.NewCoins(sdk.NewCoin(BaseDenom, sdkmath.NewIntFromBigInt(mustBig(c.Balance))))
		}
		if c.Bal2 != "" && len(spec.ExtraDenoms) > 0 {
			coins = coins.Add(sdk.NewCoin(spec.ExtraDenoms[0], sdkmath.NewIntFromBigInt(mustBig(c.Bal2))))
		}
		addAcc(acc, coins)
		var st evmtypes.Storage
		keys := make([]string, 0, len(c.Storage))
		for k := range c.Storage {
			keys = append(keys, k)
		}
		sort.Strings(keys)
		for _, k := range keys {
			st = append(st, evmtypes.NewState(common.HexToHash(k), common.HexToHash(c.Storage[k])))
		}
		evmAccounts = append(evmAccounts, evmtypes.GenesisAccount{Address: addr.Hex(), Code: c.Code, Storage: st})
	}

	genesisState[authtypes.ModuleName] = cdc.MustMarshalJSON(authtypes.NewGenesisState(authtypes.DefaultParams(), accounts))

	extraBonded := sdkmath.ZeroInt()
	for _, d := range extraDelegations {
		// delegate to validator 0 at the genesis exchange rate of 1
		validators[0].Tokens = validators[0].Tokens.Add(d.amt)
		validators[0].DelegatorShares = validators[0].DelegatorShares.Add(sdkmath.LegacyNewDecFromInt(d.amt))
		delegations = append(delegations, stakingtypes.NewDelegation(d.addr.String(), validators[0].OperatorAddress, sdkmath.LegacyNewDecFromInt(d.amt)))
		extraBonded = extraBonded.Add(d.amt)
		totalSupply = totalSupply.Add(sdk.NewCoin(BaseDenom, d.amt))
	}

	stakingParams := stakingtypes.DefaultParams()
	stakingParams.BondDenom = BaseDenom
	if spec.UnbondingS > 0 {
		stakingParams.UnbondingTime = time.Duration(spec.UnbondingS) * time.Second
	}
	genesisState[stakingtypes.ModuleName] = cdc.MustMarshalJSON(stakingtypes.NewGenesisState(stakingParams, validators, delegations))

	balances = append(balances, banktypes.Balance{
		Address: authtypes.NewModuleAddress(stakingtypes.BondedPoolName).String(),
		Coins:   sdk.Coins{sdk.NewCoin(BaseDenom, bondAmt.MulRaw(int64(len(validators))).Add(extraBonded))},
	})

	mkMeta := func(denom string, exp uint32) banktypes.Metadata {
		disp := strings.ToUpper(denom[1:])
		return banktypes.Metadata{
			Description: denom + " metadata",
			DenomUnits:  []*banktypes.DenomUnit{{Denom: denom, Exponent: 0}, {Denom: disp, Exponent: exp}},
			Base:        denom, Display: disp, Name: disp, Symbol: disp,
		}
	}
	metas := []banktypes.Metadata{mkMeta(BaseDenom, constants.BaseDenomExponent)}
	for _, d := range spec.ExtraDenoms {
		metas = append(metas, mkMeta(d, 6))
	}
	genesisState[banktypes.ModuleName] = cdc.MustMarshalJSON(banktypes.NewGenesisState(banktypes.DefaultGenesisState().Params, balances, totalSupply, metas, []banktypes.SendEnabled{}))

	fm := feemarkettypes.DefaultGenesisState()
	fm.Params.BaseFee = sdkmath.NewIntFromBigInt(mustBig(spec.BaseFee))
	if spec.MinGasPrice == "" {
		fm.Params.MinGasPrice = sdkmath.LegacyZeroDec()
	} else {
		fm.Params.MinGasPrice = sdkmath.LegacyMustNewDecFromStr(spec.MinGasPrice)
	}
	genesisState[feemarkettypes.ModuleName] = cdc.MustMarshalJSON(fm)

	evmGen := evmtypes.DefaultGenesisState()
	evmGen.Params.EvmDenom = BaseDenom
	evmGen.Params.EnableCreate = !spec.DisableCreate
	evmGen.Params.EnableCall = !spec.DisableCall
	evmGen.Accounts = evmAccounts
	genesisState[evmtypes.ModuleName] = cdc.MustMarshalJSON(evmGen)

	govGen := govv1types.DefaultGenesisState()
	govGen.Params.MinDeposit[0].Denom = BaseDenom
	govGen.Params.MinDeposit[0].Amount = sdkmath.NewInt(2)
	govGen.Params.ExpeditedMinDeposit[0].Denom = BaseDenom
	vp := time.Duration(spec.VotingPeriodS) * time.Second
	if vp == 0 {
		vp = 600 * time.Second
	}
	govGen.Params.VotingPeriod = &vp
	evp := vp / 2
	govGen.Params.ExpeditedVotingPeriod = &evp
	genesisState[govtypes.ModuleName] = cdc.MustMarshalJSON(govGen)

	mintGen := minttypes.DefaultGenesisState()
	mintGen.Params.MintDenom = BaseDenom
	if spec.NoInflation {
		mintGen.Minter.Inflation = sdkmath.LegacyZeroDec()
		mintGen.Params.InflationMax = sdkmath.LegacyZeroDec()
		mintGen.Params.InflationMin = sdkmath.LegacyZeroDec()
		mintGen.Params.InflationRateChange = sdkmath.LegacyZeroDec()
	}
	genesisState[minttypes.ModuleName] = cdc.MustMarshalJSON(mintGen)

	slGen := slashingtypes.DefaultGenesisState()
	slGen.SigningInfos = signingInfos
	genesisState[slashingtypes.ModuleName] = cdc.MustMarshalJSON(slGen)

	distrGen := distrtypes.DefaultGenesisState()
	genesisState[distrtypes.ModuleName] = cdc.MustMarshalJSON(distrGen)

	cpcGen := cpctypes.DefaultGenesis()
	cpcGen.DeployErc20Native = spec.Erc20Native
	cpcGen.DeployStakingContract = spec.StakingCpc
	if spec.CpcVersion != 0 {
		cpcGen.Params.ProtocolVersion = spec.CpcVersion
	}
	for _, wi := range spec.CpcWhitelist {
		cpcGen.Params.WhitelistedDeployers = append(cpcGen.Params.WhitelistedDeployers, b.Wallets[wi].Bech32())
	}
	genesisState[cpctypes.ModuleName] = cdc.MustMarshalJSON(cpcGen)

	stateBytes, err := json.Marshal(genesisState)
	if err != nil {
		panic(err)
	}

	cp := &cmtproto.ConsensusParams{
		Block:     &cmtproto.BlockParams{MaxBytes: spec.MaxBytes, MaxGas: spec.MaxGas},
		Evidence:  &cmtproto.EvidenceParams{MaxAgeNumBlocks: 302400, MaxAgeDuration: 504 * time.Hour, MaxBytes: 10000},
		Validator: &cmtproto.ValidatorParams{PubKeyTypes: []string{cmttypes.ABCIPubKeyTypeEd25519}},
		Version:   &cmtproto.VersionParams{},
	}
	b.InitChain = &abci.RequestInitChain{
		Time:            time.Unix(GenesisUnix, 0).UTC(),
		ChainId:         ChainID,
		ConsensusParams: cp,
		Validators:      []abci.ValidatorUpdate{},
		AppStateBytes:   stateBytes,
		InitialHeight:   1,
	}
	return b
}
