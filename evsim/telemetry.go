package evsim

import (
	_ "unsafe"

	_ "github.com/cosmos/cosmos-sdk/telemetry"
)

// The SDK's telemetry switch (app.toml telemetry.enabled) is a process-wide variable that the server sets once at
// start-up through telemetry.New, which also starts sink goroutines with real tickers. The simulator flips the switch
// alone (metrics then go to go-metrics' default black-hole sink): what a node with telemetry enabled executes inside
// the application is the same, and nothing with a timer is started inside a bubble.
//
//go:linkname sdkTelemetryEnabled github.com/cosmos/cosmos-sdk/telemetry.globalTelemetryEnabled
var sdkTelemetryEnabled bool

// setTelemetry sets the switch and returns its previous value.
func setTelemetry(on bool) bool {
	prev := sdkTelemetryEnabled
	sdkTelemetryEnabled = on
	return prev
}
