package evsim

import (
	"bytes"
	"encoding/hex"
	"fmt"
	"math/big"
	"sort"
	"strconv"
	"strings"
	"time"

	"cosmossdk.io/log"
	sdkmath "cosmossdk.io/math"
	cpctypes "github.com/EscanBE/evermint/v12/x/cpc/types"
	cmtproto "github.com/cometbft/cometbft/proto/tendermint/types"
	sdkdb "github.com/cosmos/cosmos-db"
	sdk "github.com/cosmos/cosmos-sdk/types"
	authtypes "github.com/cosmos/cosmos-sdk/x/auth/types"
	banktypes "github.com/cosmos/cosmos-sdk/x/bank/types"
	"github.com/ethereum/go-ethereum/common"
	ethtypes "github.com/ethereum/go-ethereum/core/types"
	ethcrypto "github.com/ethereum/go-ethereum/crypto"
)

// Op is one abstract operation of a script. Symbolic fields are resolved at execution time so that
// the minimiser can delete operations without invalidating the rest.
type Op struct {
	K string `json:"k"` // eth | bank | raw | replay | block | jump | ...

	// eth / bank
	W     int    `json:"w,omitempty"`     // sending wallet index
	To    string `json:"to,omitempty"`    // w3 | val0 | vest1 | c:label | n:<sent idx> | mod:name | 0x.. | "" (create)
	Init  string `json:"init,omitempty"`  // for creation: template name whose init code is deployed
	Data  string `json:"data,omitempty"`  // hex call data; words may be given as @to-style refs: see resolveData
	Val   string `json:"val,omitempty"`   // value (decimal)
	Gas   string `json:"gas,omitempty"`   // N | i+N | i-N
	Nonce string `json:"nonce,omitempty"` // cur | cur+N | cur-N | N
	Typ   int    `json:"typ,omitempty"`   // 0,1,2
	Price string `json:"price,omitempty"` // N | b+N | b-N | b*N   (gas price / fee cap)
	Tip   string `json:"tip,omitempty"`   // N (type 2)
	Denom string `json:"denom,omitempty"` // bank
	Via   string `json:"via,omitempty"`   // "" direct inclusion | "check" through CheckTx
	Mut   string `json:"mut,omitempty"`   // adversarial mutation of the envelope / signature
	Ref   int    `json:"ref,omitempty"`   // replay: index into the sent list
	Hex   string `json:"hex,omitempty"`   // raw bytes

	// block
	Dt   int  `json:"dt,omitempty"`   // seconds since previous block
	Prop int  `json:"prop,omitempty"` // proposer slot
	Byz  bool `json:"byz,omitempty"`  // skip PrepareProposal (byzantine proposer: txs as given)

	Note string `json:"note,omitempty"`

	// precompile arms
	A     []string `json:"a,omitempty"`     // symbolic method arguments
	Chain string   `json:"chain,omitempty"` // call chain through router contracts, see ParseChain
}

// Script is a complete, replayable description of one run.
type Script struct {
	Prop        string            `json:"prop"`
	Seed        uint64            `json:"seed"`
	Gen         GenesisSpec       `json:"genesis"`
	Node        NodeOpts          `json:"node"`
	WallOffsetS int64             `json:"wall_offset_s"` // the primary's wall clock = bubble epoch + offset
	Ops         []Op              `json:"ops"`
	Extra       map[string]string `json:"extra,omitempty"`
	Replicas    []ReplicaEnv      `json:"replicas,omitempty"`
}

// Sent records every transaction the clients ever built.
type Sent struct {
	Bytes   []byte
	OpIdx   int
	Wallet  int
	EthTx   *ethtypes.Transaction
	IsEth   bool
	Created common.Address // CREATE address for creations
	Meta    map[string]string
	Erc20   *Erc20Call
	PcCall  *PcCall
	Wit     *Witness
	Stk     *SignedStk
}

// World is the interpreter state.
type World struct {
	R       *RunCtx
	S       *Script
	G       *Built
	C       *Chain
	DB      sdkdb.DB
	Pending [][]byte
	PendIdx []int // sent index per pending tx (-1 raw)
	Sent    []*Sent
	next    map[int]uint64 // wallet -> next nonce the client believes in
	Labels  map[string]common.Address
	OnBlock []func(w *World, rec *BlockRecord, txs []*TxInfo)
	C06     *C06Model
	Q       *C08State
	ByHash  map[common.Hash]*Sent
	C10     *C10Model
	C17     *C17Model
	C14     *C14State
	C16     *C16Model
	opIdx   int
}

// GenesisContractAddr is the fixed address of a labelled genesis contract.
func GenesisContractAddr(i int) common.Address {
	var a common.Address
	copy(a[:], []byte{0xc0, 0xde})
	a[19] = byte(i + 1)
	a[18] = byte((i + 1) >> 8)
	return a
}

// NewWorld builds genesis, node and chain for a script.
func NewWorld(r *RunCtx, s *Script) *World {
	w := &World{R: r, S: s, next: map[int]uint64{}, Labels: map[string]common.Address{}}
	w.G = BuildGenesis(s.Gen)
	w.DB = sdkdb.NewMemDB()
	w.C = NewChain(w.G, w.DB, s.Node)
	w.C06 = NewC06Model()
	for _, x := range w.G.Wallets {
		w.C06.Keys[x.Addr] = true
	}
	for _, v := range w.G.Validators {
		w.C06.Keys[v.Operator.Addr] = true
	}
	for _, x := range w.G.VestKeys {
		w.C06.Keys[x.Addr] = true
	}
	return w
}

// CommittedCtx is a read-only context over the last committed state (cache-wrapped: writes go nowhere).
func (n *Node) CommittedCtx(h int64, t time.Time) sdk.Context {
	return sdk.NewContext(n.App.CommitMultiStore().CacheMultiStore(), cmtproto.Header{Height: h, Time: t, ChainID: ChainID}, false, log.NewNopLogger())
}

func (w *World) ctx() sdk.Context { return w.C.Node.CommittedCtx(w.C.Height, w.C.Time) }

// BaseFee is the committed base fee (the one the next block's transactions are checked against).
func (w *World) BaseFee() *big.Int {
	return w.C.Node.App.FeeMarketKeeper.GetParams(w.ctx()).BaseFee.BigInt()
}

func (w *World) committedSeq(a sdk.AccAddress) (seq, num uint64, ok bool) {
	acc := w.C.Node.App.AccountKeeper.GetAccount(w.ctx(), a)
	if acc == nil {
		return 0, 0, false
	}
	return acc.GetSequence(), acc.GetAccountNumber(), true
}

func (w *World) wallet(i int) *Wallet {
	if i >= 1000 && i < 2000 {
		return w.G.Validators[(i-1000)%len(w.G.Validators)].Operator
	}
	if i >= 2000 {
		return NewWallet("vest", i-2000)
	}
	return w.G.Wallets[((i%len(w.G.Wallets))+len(w.G.Wallets))%len(w.G.Wallets)]
}

// ResolveAddr turns a symbolic address into a concrete one.
func (w *World) ResolveAddr(s string) (common.Address, bool) {
	switch {
	case s == "":
		return common.Address{}, false
	case strings.HasPrefix(s, "0x"):
		return common.HexToAddress(s), true
	case strings.HasPrefix(s, "w"):
		i, _ := strconv.Atoi(s[1:])
		return w.wallet(i).Addr, true
	case strings.HasPrefix(s, "val"):
		i, _ := strconv.Atoi(s[3:])
		return w.G.Validators[i%len(w.G.Validators)].Operator.Addr, true
	case strings.HasPrefix(s, "vest"):
		i, _ := strconv.Atoi(s[4:])
		if i < len(w.S.Gen.Vesting) && w.S.Gen.Vesting[i].Addr != "" {
			return common.HexToAddress(w.S.Gen.Vesting[i].Addr), true
		}
		if i < len(w.S.Gen.Vesting) {
			return NewWallet("vest", w.S.Gen.Vesting[i].Wallet).Addr, true
		}
		return NewWallet("vest", i).Addr, true
	case strings.HasPrefix(s, "c:"):
		if a, ok := w.Labels[s[2:]]; ok {
			return a, true
		}
		return common.Address{}, false
	case strings.HasPrefix(s, "n:"):
		i, _ := strconv.Atoi(s[2:])
		if i >= 0 && i < len(w.Sent) && w.Sent[i].Created != (common.Address{}) {
			return w.Sent[i].Created, true
		}
		return common.HexToAddress("0x00000000000000000000000000000000000dead1"), true
	case strings.HasPrefix(s, "mod:"):
		return common.BytesToAddress(authtypes.NewModuleAddress(s[4:])), true
	case strings.HasPrefix(s, "pc:"):
		i, _ := strconv.Atoi(s[3:])
		metas := w.C.Node.App.CPCKeeper.GetAllCustomPrecompiledContractsMeta(w.ctx())
		if len(metas) == 0 {
			return common.Address{}, false
		}
		sort.Slice(metas, func(a, b int) bool { return bytes.Compare(metas[a].Address, metas[b].Address) < 0 })
		return common.BytesToAddress(metas[i%len(metas)].Address), true
	case strings.HasPrefix(s, "erc20:"), s == "staking", s == "bech32":
		want, idx := cpctypes.CpcTypeErc20, 0
		switch {
		case s == "staking":
			want = cpctypes.CpcTypeStaking
		case s == "bech32":
			want = cpctypes.CpcTypeBech32
		default:
			idx, _ = strconv.Atoi(s[6:])
		}
		metas := w.C.Node.App.CPCKeeper.GetAllCustomPrecompiledContractsMeta(w.ctx())
		sort.Slice(metas, func(a, b int) bool { return bytes.Compare(metas[a].Address, metas[b].Address) < 0 })
		var of []common.Address
		for _, m := range metas {
			if m.CustomPrecompiledType == want {
				of = append(of, common.BytesToAddress(m.Address))
			}
		}
		if len(of) == 0 {
			return common.Address{}, false
		}
		return of[idx%len(of)], true
	case strings.HasPrefix(s, "cr:"):
		// cr:<wallet>:<k> = the CREATE address of that wallet at its current nonce + k
		parts := strings.Split(s, ":")
		wi, _ := strconv.Atoi(parts[1])
		k := 0
		if len(parts) > 2 {
			k, _ = strconv.Atoi(parts[2])
		}
		wl := w.wallet(wi)
		return ethcrypto.CreateAddress(wl.Addr, w.nextNonce(wi, wl)+uint64(k)), true
	case strings.HasPrefix(s, "fresh"):
		i, _ := strconv.Atoi(s[5:])
		return NewWallet("fresh", i).Addr, true
	}
	return common.Address{}, false
}

func relNum(s string, base *big.Int, pfx string) *big.Int {
	if s == "" {
		return new(big.Int).Set(base)
	}
	if strings.HasPrefix(s, pfx) {
		rest := s[len(pfx):]
		if rest == "" {
			return new(big.Int).Set(base)
		}
		n, ok := new(big.Int).SetString(rest[1:], 10)
		if !ok {
			panic("bad number " + s)
		}
		switch rest[0] {
		case '+':
			return new(big.Int).Add(base, n)
		case '-':
			v := new(big.Int).Sub(base, n)
			if v.Sign() < 0 {
				v.SetInt64(0)
			}
			return v
		case '*':
			return new(big.Int).Mul(base, n)
		case '/':
			if n.Sign() == 0 {
				return new(big.Int)
			}
			return new(big.Int).Quo(base, n)
		}
		panic("bad op " + s)
	}
	n, ok := new(big.Int).SetString(s, 10)
	if !ok {
		panic("bad number " + s)
	}
	return n
}

// resolveData: hex with optional symbolic words: "{w3}" "{c:store}" "{n:2}" -> 32-byte address words.
func (w *World) resolveData(s string) []byte {
	var out []byte
	for len(s) > 0 {
		if s[0] == '{' {
			j := strings.IndexByte(s, '}')
			a, _ := w.ResolveAddr(s[1:j])
			out = append(out, Word(a)...)
			s = s[j+1:]
			continue
		}
		j := strings.IndexByte(s, '{')
		if j < 0 {
			j = len(s)
		}
		b, err := hex.DecodeString(s[:j])
		if err != nil {
			panic("bad hex in data: " + s[:j])
		}
		out = append(out, b...)
		s = s[j:]
	}
	return out
}

// IntrinsicGas is the harness's own implementation (Istanbul+, no Shanghai init-code word gas in this fork's rules).
func IntrinsicGas(data []byte, al ethtypes.AccessList, create bool) uint64 {
	g := uint64(21000)
	if create {
		g = 53000
	}
	for _, b := range data {
		if b == 0 {
			g += 4
		} else {
			g += 16
		}
	}
	g += uint64(len(al)) * 2400
	for _, t := range al {
		g += uint64(len(t.StorageKeys)) * 1900
	}
	return g
}

var templates = map[string]func() []byte{
	"store": TmplStore, "logs": TmplLogs, "revert": TmplRevert, "invalid": TmplInvalid, "burn": TmplBurn,
	"clear": TmplClear, "sd": TmplSelfDestruct, "factory": TmplFactory, "proxy": TmplProxy, "multi": TmplMulti,
	"sd2": TmplSelfDestruct, "sd3": TmplSelfDestruct,
}

// TemplateNames in fixed order.
var TemplateNames = []string{"store", "logs", "revert", "invalid", "burn", "clear", "sd", "factory", "proxy", "multi", "sd2", "sd3"}

// BuildEthOp resolves and signs an eth op against the current committed state.
func (w *World) BuildEthOp(op *Op) *Sent {
	wl := w.wallet(op.W)
	base := w.BaseFee()
	e := &EthTx{Type: op.Typ}
	var data []byte
	create := false
	if op.Init != "" {
		create = true
		rt := templates[op.Init]()
		if op.Init == "raw" {
			// the runtime code is given in Data
			rt, _ = hex.DecodeString(op.Data)
		}
		if op.Init == "rawinit" {
			// the init code itself is given in Data (constructors that stop, log, self-destruct ... and leave no code)
			data, _ = hex.DecodeString(op.Data)
		} else {
			data = InitCodeFor(rt, func(a *Asm) {
				// constructor effect: slots 1..8 non-zero so that "clear" has something to refund
				if op.Init == "clear" {
					for i := 1; i <= 8; i++ {
						a.Push(0xff).Push(i)
						a.buf = append(a.buf, 0x55) // SSTORE
					}
				}
			})
		}
		if op.Data != "" && op.Init != "raw" && op.Init != "rawinit" {
			data = append(data, w.resolveData(op.Data)...)
		}
	} else {
		data = w.resolveData(op.Data)
		if to, ok := w.ResolveAddr(op.To); ok {
			e.To = &to
		} else if op.To != "" {
			// unresolved label: call a dead address
			d := common.HexToAddress("0x00000000000000000000000000000000000dead2")
			e.To = &d
		} else {
			create = true
		}
	}
	e.Data = data
	e.Value = relNum(op.Val, new(big.Int), "_")
	if op.Typ >= 1 && strings.Contains(op.Mut, "al") {
		// EIP-2930 lists of several shapes: the sender, the destination with the slots the templates use, repeated
		// addresses and keys (each entry is paid for), a cold third party
		slot := func(i int) common.Hash { return common.BigToHash(big.NewInt(int64(i))) }
		dest := wl.Addr
		if e.To != nil {
			dest = *e.To
		}
		other := w.wallet(op.W + 1).Addr
		switch (op.W + len(data) + len(op.Gas)) % 4 {
		case 0:
			e.Access = ethtypes.AccessList{{Address: wl.Addr, StorageKeys: []common.Hash{{1}}}}
		case 1:
			e.Access = ethtypes.AccessList{{Address: dest, StorageKeys: []common.Hash{slot(0), slot(1), slot(2)}}, {Address: wl.Addr}}
		case 2:
			e.Access = ethtypes.AccessList{{Address: dest, StorageKeys: []common.Hash{slot(0), slot(1), slot(0)}}, {Address: other}, {Address: dest, StorageKeys: []common.Hash{slot(1)}}}
		default:
			e.Access = ethtypes.AccessList{{Address: other, StorageKeys: []common.Hash{slot(5)}}, {Address: dest, StorageKeys: []common.Hash{slot(0), slot(1), slot(2), slot(3), slot(4), slot(5), slot(6), slot(7), slot(8)}}}
		}
	}
	intr := IntrinsicGas(data, e.Access, create)
	e.Gas = relNum(op.Gas, new(big.Int).SetUint64(intr), "i").Uint64()
	cur := w.nextNonce(op.W, wl)
	e.Nonce = relNum(op.Nonce, new(big.Int).SetUint64(cur), "cur").Uint64()
	price := relNum(op.Price, base, "b")
	if op.Typ == 2 {
		e.FeeCap = price
		e.TipCap = relNum(op.Tip, new(big.Int), "_")
		if e.TipCap.Cmp(e.FeeCap) > 0 && !strings.Contains(op.Mut, "tip>cap") {
			e.TipCap = new(big.Int).Set(e.FeeCap)
		}
	} else {
		e.GasPrice = price
	}
	var bz []byte
	var tx *ethtypes.Transaction
	switch {
	case strings.Contains(op.Mut, "chainid"):
		e.ChainID = big.NewInt(EvmChainID + 1)
		bz, tx = BuildEthTx(wl, e)
	case strings.Contains(op.Mut, "unprotected"):
		e.Unprotected = true
		e.Type = 0
		if e.GasPrice == nil {
			e.GasPrice = price
		}
		bz, tx = BuildEthTx(wl, e)
	case strings.Contains(op.Mut, "wrongkey"):
		e.SignWith = w.wallet(op.W + 1)
		bz, tx = BuildEthTx(wl, e)
	case strings.Contains(op.Mut, "wrongfrom"):
		other := w.wallet(op.W + 1).Addr
		e.DeclareFrom = &other
		bz, tx = BuildEthTx(wl, e)
	default:
		bz, tx = BuildEthTx(wl, e)
	}
	if op.Mut == "" || strings.Contains(op.Mut, "al") {
		if e.Nonce == cur {
			w.next[op.W] = cur + 1
		}
	}
	s := &Sent{Bytes: bz, OpIdx: w.opIdx, Wallet: op.W, EthTx: tx, IsEth: true}
	if create {
		s.Created = ethcrypto.CreateAddress(wl.Addr, e.Nonce)
	}
	return s
}

func (w *World) nextNonce(idx int, wl *Wallet) uint64 {
	if n, ok := w.next[idx]; ok {
		return n
	}
	seq, _, _ := w.committedSeq(wl.Acc())
	w.next[idx] = seq
	return seq
}

// BuildBankOp builds a Cosmos MsgSend.
func (w *World) BuildBankOp(op *Op) *Sent {
	wl := w.wallet(op.W)
	to, ok := w.ResolveAddr(op.To)
	if !ok {
		to = w.wallet(op.W + 1).Addr
	}
	denom := op.Denom
	if denom == "" {
		denom = BaseDenom
	}
	amt := relNum(op.Val, big.NewInt(1), "_")
	msg := &banktypes.MsgSend{FromAddress: wl.Bech32(), ToAddress: sdk.AccAddress(to.Bytes()).String(),
		Amount: sdk.NewCoins(sdk.NewCoin(denom, sdkmath.NewIntFromBigInt(amt)))}
	base := w.BaseFee()
	price := relNum(op.Price, base, "b")
	gas := relNum(op.Gas, big.NewInt(200000), "i").Uint64()
	fee := new(big.Int).Mul(price, new(big.Int).SetUint64(gas))
	_, num, _ := w.committedSeq(wl.Acc())
	cur := w.nextNonce(op.W, wl)
	seq := relNum(op.Nonce, new(big.Int).SetUint64(cur), "cur").Uint64()
	c := &CosmosTx{Msgs: []sdk.Msg{msg}, Gas: gas, Fee: sdk.NewCoins(sdk.NewCoin(BaseDenom, sdkmath.NewIntFromBigInt(fee))), AccNum: num, Seq: seq}
	if fee.Sign() == 0 {
		c.Fee = sdk.Coins{}
	}
	if op.Typ == 2 {
		t := sdkmath.NewIntFromBigInt(relNum(op.Tip, new(big.Int), "_"))
		c.DynTip = &t
	}
	bz := BuildCosmosTx(wl, c)
	if seq == cur {
		w.next[op.W] = cur + 1
	}
	return &Sent{Bytes: bz, OpIdx: w.opIdx, Wallet: op.W}
}

// Submit queues tx bytes for the next block, either directly (a proposer may include anything) or
// through CheckTx as a well-behaved node would.
func (w *World) Submit(s *Sent, via string) {
	idx := -1
	if s != nil {
		w.Sent = append(w.Sent, s)
		idx = len(w.Sent) - 1
		if s.EthTx != nil {
			if w.ByHash == nil {
				w.ByHash = map[common.Hash]*Sent{}
			}
			w.ByHash[s.EthTx.Hash()] = s
		}
	}
	w.submitBytes(s.Bytes, idx, via)
}

func (w *World) submitBytes(bz []byte, idx int, via string) {
	if via == "check" {
		res, err, pi := w.C.Node.CheckTx(abciCheckReq(bz))
		w.R.Count("o:checktx")
		if pi != nil {
			w.R.Violate("C20", "abci_panic", map[string]string{"phase": "CheckTx", "site": panicSite(pi)}, "CheckTx panicked: %s", pi.Value)
			return
		}
		if err != nil {
			w.R.Violate("C20", "abci_error", map[string]string{"phase": "CheckTx"}, "CheckTx returned error: %v", err)
			return
		}
		if res.Code != 0 {
			w.R.Count("o:checktx_reject")
			w.R.Logf("checktx reject code=%d", res.Code)
			return
		}
	}
	w.Pending = append(w.Pending, bz)
	w.PendIdx = append(w.PendIdx, idx)
}

// Exec runs one op.
func (w *World) Exec(i int, op *Op) {
	w.opIdx = i
	if w.C.Halted {
		return
	}
	switch op.K {
	case "eth":
		w.Submit(w.BuildEthOp(op), op.Via)
	case "bank":
		w.Submit(w.BuildBankOp(op), op.Via)
	case "raw":
		bz, _ := hex.DecodeString(op.Hex)
		w.submitBytes(bz, -1, op.Via)
	case "replay":
		if len(w.Sent) > 0 {
			ref := ((op.Ref % len(w.Sent)) + len(w.Sent)) % len(w.Sent)
			w.R.Count("f:replay")
			w.submitBytes(w.Sent[ref].Bytes, ref, op.Via)
		}
	case "jump":
		w.R.Count("f:clock_jump")
		w.C.Time = w.C.Time.Add(time.Duration(op.Dt) * time.Second)
		w.R.SimSecs += int64(op.Dt)
	case "block":
		w.DoBlock(op)
	default:
		if h, ok := opHandlers[op.K]; ok {
			h(w, op)
			return
		}
		panic(fmt.Sprintf("harness: unknown op kind %q", op.K))
	}
}

var opHandlers = map[string]func(w *World, op *Op){}

// DoBlock decides the next height with all pending txs and runs the always-on oracles.
func (w *World) DoBlock(op *Op) *BlockRecord {
	dt := op.Dt
	if dt <= 0 {
		dt = 5
	}
	txs := w.Pending
	w.Pending, w.PendIdx = nil, nil
	// the same ABCI call sequence as Chain.Block, with the query phases of the block life-cycle in between
	bo := BlockOpts{Dt: time.Duration(dt) * time.Second, ProposerAt: op.Prop, Honest: !op.Byz, SkipCommit: true}
	w.runPhase("pre")
	rec, _ := w.C.Propose(txs, bo)
	rec.Byzantine = op.Byz
	w.runPhase("mid")
	rec = w.C.Decide(rec, bo)
	if !w.C.Halted {
		w.runPhase("fin")
		rec = w.C.CommitDecided(rec)
	}
	if !w.C.Halted {
		w.runPhase("post")
	}
	w.R.SimSecs += int64(dt)
	w.R.Count("o:blocks")
	if op.Byz {
		w.R.Count("f:byzantine_block")
	}
	w.next = map[int]uint64{}
	w.AfterBlock(rec)
	return rec
}

// AfterBlock logs the block and runs the oracles.
func (w *World) AfterBlock(rec *BlockRecord) {
	r := w.R
	r.At(rec.Height, -1)
	checkABCI(r, rec)
	if rec.Res == nil {
		r.Logf("block %d halted", rec.Height)
		return
	}
	r.Logf("block %d apphash=%x txs=%d", rec.Height, rec.AppHash, len(rec.Req.Txs))
	txs := ParseBlock(rec)
	for _, t := range txs {
		if t.Res != nil {
			r.Logf(" tx %d code=%d gw=%d gu=%d ev=%d data=%x", t.Pos, t.Res.Code, t.Res.GasWanted, t.Res.GasUsed, len(t.Res.Events), sha(t.Res.Data))
			if r.KeepLog && t.Res.Code != 0 {
				fmt.Printf("    log: %s\n", clip(t.Res.Log))
			}
		}
	}
	RunAlwaysOn(w, rec, txs)
	for _, f := range w.OnBlock {
		f(w, rec, txs)
	}
}

// RunScript interprets the whole script.
func RunScript(r *RunCtx, s *Script) *World {
	w := NewWorld(r, s)
	checkInit(r, w.C)
	for i := range s.Ops {
		w.Exec(i, &s.Ops[i])
	}
	return w
}
