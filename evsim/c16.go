package evsim

import (
	"bytes"
	"encoding/hex"
	"fmt"
	"math/big"
	"math/rand/v2"
	"strings"

	vauthtypes "github.com/EscanBE/evermint/v12/x/vauth/types"
	btcecdsa "github.com/btcsuite/btcd/btcec/v2/ecdsa"
	sdk "github.com/cosmos/cosmos-sdk/types"
	vestingtypes "github.com/cosmos/cosmos-sdk/x/auth/vesting/types"
	"github.com/cosmos/gogoproto/proto"
	"github.com/ethereum/go-ethereum/common"
	ethtypes "github.com/ethereum/go-ethereum/core/types"
	"golang.org/x/crypto/sha3"
)

// ---- C16: vesting accounts only for proven EOAs; ownership proofs unforgeable and final ---------------

func decodeEthPayload(bz []byte) (*ethtypes.Transaction, bool) {
	tx := &ethtypes.Transaction{}
	if err := tx.UnmarshalBinary(bz); err != nil {
		return nil, false
	}
	return tx, true
}

// C16Model: the set of proven addresses with the record first stored for each.
type C16Model struct {
	Proven map[common.Address][]byte
}

var oneEther = new(big.Int).Exp(big.NewInt(10), big.NewInt(18), nil)

func proofsOf(d *Dump) map[common.Address][]byte {
	out := map[common.Address][]byte{}
	for _, kv := range d.Prefix("vauth", vauthtypes.KeyPrefixProofExternalOwnedAccount) {
		if len(kv.K) == 1+20 {
			out[common.BytesToAddress(kv.K[1:])] = kv.V
		}
	}
	return out
}

// oddProofKeys: proof records filed under something that is not a 20-byte address (nobody's key controls that).
func oddProofKeys(d *Dump) map[string][]byte {
	out := map[string][]byte{}
	for _, kv := range d.Prefix("vauth", vauthtypes.KeyPrefixProofExternalOwnedAccount) {
		if len(kv.K) != 1+20 {
			out[string(kv.K[1:])] = kv.V
		}
	}
	return out
}

// recoverProofSigner: independent secp256k1 recovery over keccak256(the module's fixed message).
func recoverProofSigner(sigHex string) (common.Address, bool) {
	if !strings.HasPrefix(sigHex, "0x") {
		return common.Address{}, false
	}
	sig, err := hex.DecodeString(sigHex[2:])
	if err != nil || len(sig) != 65 || sig[64] > 1 {
		return common.Address{}, false
	}
	h := sha3.NewLegacyKeccak256()
	h.Write([]byte("vauth"))
	digest := h.Sum(nil)
	cs := make([]byte, 65)
	cs[0] = 27 + sig[64]
	copy(cs[1:], sig[:64])
	pub, _, err := btcecdsa.RecoverCompact(cs, digest)
	if err != nil {
		return common.Address{}, false
	}
	k := sha3.NewLegacyKeccak256()
	k.Write(pub.SerializeUncompressed()[1:])
	return common.BytesToAddress(k.Sum(nil)[12:]), true
}

func c16AfterBlock(w *World, rec *BlockRecord, txs []*TxInfo) {
	r := w.R
	if w.C16 == nil {
		w.C16 = &C16Model{Proven: map[common.Address][]byte{}}
	}
	m := w.C16
	for _, t := range txs {
		if t.Obs == nil || t.Obs.After == nil {
			continue
		}
		r.At(rec.Height, t.Pos)
		pre, post := ViewOf(t.Obs.Before), ViewOf(t.Obs.After)
		pb, pa := proofsOf(t.Obs.Before), proofsOf(t.Obs.After)
		shape := readShape(t.Bytes)
		// --- (1) vesting accounts appear only for proven targets, through a top-level message
		for _, a := range post.Addresses() {
			ai := post.Acc[a]
			if ai == nil || ai.Vesting == nil {
				continue
			}
			if bi := pre.Acc[a]; bi != nil && bi.Vesting != nil {
				continue
			}
			r.Probe("vesting_account_created_by_tx", true)
			if _, ok := pb[a]; !ok {
				r.Violate("C16", "vesting_account_without_proof", nil, "a vesting account was created for %s which has no stored ownership proof", a.Hex())
			}
			top := false
			for i, u := range shape.TopURLs {
				if !laneDisabledURLs[u] || u == ethMsgURL {
					continue
				}
				var to string
				switch u {
				case "/cosmos.vesting.v1beta1.MsgCreateVestingAccount":
					var x vestingtypes.MsgCreateVestingAccount
					_ = proto.Unmarshal(shape.Body.Messages[i].Value, &x)
					to = x.ToAddress
				case "/cosmos.vesting.v1beta1.MsgCreatePeriodicVestingAccount":
					var x vestingtypes.MsgCreatePeriodicVestingAccount
					_ = proto.Unmarshal(shape.Body.Messages[i].Value, &x)
					to = x.ToAddress
				case "/cosmos.vesting.v1beta1.MsgCreatePermanentLockedAccount":
					var x vestingtypes.MsgCreatePermanentLockedAccount
					_ = proto.Unmarshal(shape.Body.Messages[i].Value, &x)
					to = x.ToAddress
				}
				if acc, err := sdk.AccAddressFromBech32(to); err == nil && common.BytesToAddress(acc) == a {
					top = true
				}
			}
			if !top {
				r.Violate("C16", "vesting_account_not_by_top_level_message", nil, "a vesting account for %s was created by a tx with no top-level creation message for it (messages %v)", a.Hex(), shape.TopURLs)
			}
		}
		// --- (2) proofs: stored only with a signature of the proven key, once, for exactly the fixed fee which is burnt
		supplyDelta := new(big.Int)
		if sb, sa := pre.Supply[BaseDenom], post.Supply[BaseDenom]; sb != nil && sa != nil {
			supplyDelta.Sub(sa, sb)
		}
		newProofs := 0
		oddB, oddA := oddProofKeys(t.Obs.Before), oddProofKeys(t.Obs.After)
		for k := range oddA {
			if _, had := oddB[k]; !had {
				newProofs++
				r.Violate("C16", "proof_stored_for_non_eoa_address", map[string]string{"address_bytes": fmt.Sprint(len(k))}, "a proof was stored for the %d-byte \"address\" %x: no key controls it, the signature was checked against its last 20 bytes", len(k), k)
			}
		}
		for a, recBz := range pa {
			old, had := pb[a]
			if had {
				if !bytes.Equal(old, recBz) {
					r.Violate("C16", "proof_overwritten", nil, "the stored proof of %s changed", a.Hex())
				}
				continue
			}
			newProofs++
			var p vauthtypes.ProofExternalOwnedAccount
			if err := EncodingConfig().Codec.Unmarshal(recBz, &p); err != nil {
				r.Violate("C16", "proof_record_undecodable", nil, "stored proof of %s does not decode: %v", a.Hex(), err)
				continue
			}
			signer, ok := recoverProofSigner(p.Signature)
			if !ok || signer != a {
				r.Violate("C16", "proof_stored_without_valid_signature", nil, "a proof for %s was stored with signature %s which recovers to %s (ok=%v)", a.Hex(), clip(p.Signature), signer.Hex(), ok)
			}
			if first, seen := m.Proven[a]; seen && !bytes.Equal(first, recBz) {
				r.Violate("C16", "proof_overwritten", map[string]string{"how": "re-proved"}, "%s was proved again with another record", a.Hex())
			}
			m.Proven[a] = recBz
		}
		for a := range pb {
			if _, ok := pa[a]; !ok {
				r.Violate("C16", "proof_removed", nil, "the stored proof of %s disappeared", a.Hex())
			}
		}
		hasProofMsg := false
		var submitter common.Address
		for i, u := range shape.TopURLs {
			if strings.HasSuffix(u, "MsgSubmitProofExternalOwnedAccount") {
				hasProofMsg = true
				var x vauthtypes.MsgSubmitProofExternalOwnedAccount
				if err := proto.Unmarshal(shape.Body.Messages[i].Value, &x); err == nil {
					if acc, err := sdk.AccAddressFromBech32(x.Submitter); err == nil {
						submitter = common.BytesToAddress(acc)
					}
				}
			}
		}
		if newProofs > 0 {
			r.Probe("ownership_proof_stored", true)
			want := new(big.Int).Mul(oneEther, big.NewInt(int64(newProofs)))
			if new(big.Int).Neg(supplyDelta).Cmp(want) != 0 {
				r.Violate("C16", "proof_fee_not_burnt_exactly", nil, "%d proofs stored, supply changed by %s (expected -%s)", newProofs, supplyDelta, want)
			}
			if hasProofMsg && len(shape.TopURLs) == 1 && shape.Auth.Fee != nil {
				fee := new(big.Int)
				for _, c := range shape.Auth.Fee.Amount {
					if c.Denom == BaseDenom {
						fee.Add(fee, c.Amount.BigInt())
					}
				}
				got := new(big.Int).Sub(post.Balance(submitter, BaseDenom), pre.Balance(submitter, BaseDenom))
				exp := new(big.Int).Neg(new(big.Int).Add(want, fee))
				if got.Cmp(exp) != 0 {
					r.Violate("C16", "submitter_charged_wrong_amount", nil, "submitter balance changed by %s, expected %s (fixed fee + declared tx fee %s)", got, exp, fee)
				}
			}
		} else if hasProofMsg {
			r.Probe("proof_submission_rejected", true)
			// a rejected submission stores nothing (checked above: no new proof) and burns nothing
			if supplyDelta.Sign() != 0 && len(shape.TopURLs) == 1 {
				r.Violate("C16", "rejected_submission_burnt_coins", nil, "a proof submission that stored nothing changed the supply by %s", supplyDelta)
			}
		}
	}
	// records never change afterwards
	if rec.Obs != nil && rec.Obs.AfterEnd != nil {
		r.At(rec.Height, -1)
		now := proofsOf(rec.Obs.AfterEnd)
		for a, first := range m.Proven {
			if cur, ok := now[a]; !ok || !bytes.Equal(cur, first) {
				r.Violate("C16", "proof_overwritten", map[string]string{"how": "later"}, "the stored proof of %s is no longer the record first stored", a.Hex())
			}
		}
	}
}

func init() {
	// vest_create: W funder, To target symbol, Mut2 in Note: kind (continuous | delayed | periodic | permanent)
	msgBuilders["vest_create"] = func(w *World, op *Op) []sdk.Msg {
		from := w.wallet(op.W)
		target := keyWallet(w, op.To)
		amt := sdk.NewCoins(sdk.NewInt64Coin(BaseDenom, 1000+int64(op.Ref)))
		end := w.C.Time.Unix() + 100000
		switch op.Note {
		case "periodic":
			return []sdk.Msg{vestingtypes.NewMsgCreatePeriodicVestingAccount(from.Acc(), target.Acc(), w.C.Time.Unix(), []vestingtypes.Period{{Length: 1000, Amount: amt}})}
		case "permanent":
			return []sdk.Msg{vestingtypes.NewMsgCreatePermanentLockedAccount(from.Acc(), target.Acc(), amt)}
		case "delayed":
			return []sdk.Msg{vestingtypes.NewMsgCreateVestingAccount(from.Acc(), target.Acc(), amt, end, true)}
		default:
			return []sdk.Msg{vestingtypes.NewMsgCreateVestingAccount(from.Acc(), target.Acc(), amt, end, false)}
		}
	}
	Arms["C16"] = &Arm{Gen: genC16, Run: runPc(c16AfterBlock, c07AfterBlock)}
}

func genC16(rng *rand.Rand, seed uint64, tier string) *Script {
	g, _ := mixedGenesis(rng)
	g.MaxGas = pick(rng, int64(40_000_000), -1)
	g.BaseFee = pick(rng, "1000000000", "7", "0")
	g.MinGasPrice = pick(rng, "0", "0", "0.5")
	// some submitters can barely afford the fixed fee
	g.WalletBalance = pick(rng, "1000000000000000000000", "1000000000000000000000", "1000500000000000000")
	s := &Script{Prop: "C16", Seed: seed, Gen: g, Extra: map[string]string{}}
	ops := []Op{{K: "block", Dt: 5}}
	targets := []string{"fresh1", "fresh2", "fresh3", "fresh4", "w3"}
	nb := 4 + rng.IntN(8)
	for b := 0; b < nb; b++ {
		for i, n := 0, 1+rng.IntN(5); i < n; i++ {
			w := rng.IntN(g.Wallets)
			tgt := targets[rng.IntN(len(targets))]
			switch k := rng.IntN(100); {
			case k < 35:
				ops = append(ops, Op{K: "msg", W: w, Mut: "vauth_proof", To: tgt, Note: pick(rng, "", "", "", "", "wrongkey", "wrongmsg", "v27", "short", "long", "flip", "upper", "no0x", "acc_upper", "acc_upper", "acc_mixed", "acc_long", "acc_long"), Via: pick(rng, "", "", "check"), Hex: pick(rng, "", "", "", "failsend")})
			case k < 65:
				ops = append(ops, Op{K: "msg", W: w, Mut: "vest_create", To: tgt, Ref: rng.IntN(9), Note: pick(rng, "continuous", "delayed", "periodic", "permanent")})
			case k < 80: // nested in exec / granted
				ops = append(ops, Op{K: "lane", W: w, Mut: pick(rng, "exec_vesting", "exec_vesting", "grant_eth"), Ref: rng.IntN(8), Typ: rng.IntN(4), Via: pick(rng, "", "", "check")})
			case k < 85:
				ops = append(ops, Op{K: "replay", Ref: rng.IntN(1000)})
			default:
				ops = append(ops, genMixedTx(rng, &g))
			}
		}
		ops = append(ops, Op{K: "block", Dt: pick(rng, 1, 5, 5), Prop: rng.IntN(3), Byz: rng.IntN(3) == 0})
	}
	ops = append(ops, Op{K: "block", Dt: 5})
	s.Ops = ops
	_ = fmt.Sprint
	return s
}
