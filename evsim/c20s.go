package evsim

import (
	"fmt"
	"math/rand/v2"
	"sort"
	"strings"
	"sync/atomic"
	"time"

	"evsim/simrt"

	"github.com/EscanBE/evermint/v12/rpc/ethereum/pubsub"
	coretypes "github.com/cometbft/cometbft/rpc/core/types"
)

// ---- C20, schedule arm: concurrent subscribe / unsubscribe / publish on the event bus -----------------
//
// The real pubsub bus (instrumented by the yield overlay) runs under the deterministic scheduler of simrt:
// client goroutines execute generated operation lists, publishers push numbered events into topic sources
// and close them, and one PRNG value decides every interleaving. Oracles: no panic in any goroutine, no map
// written under a read lock (lock-discipline probe), per-subscriber delivery is an in-order subsequence of
// what was published, every client finishes within the step budget (no deadlock / livelock), and after the
// clients are done a fresh subscriber still receives a fresh event (bounded liveness after faults).

type busSub struct {
	topic string
	ch    <-chan coretypes.ResultEvent
	unsub pubsub.UnsubscribeFunc
	last  map[int]int // per publisher: the bus must deliver each publisher's events in publishing order
	open  bool
}

func evSeq(q string) (string, int) {
	i := strings.LastIndexByte(q, '#')
	if i < 0 {
		return q, -1
	}
	n := 0
	fmt.Sscanf(q[i+1:], "%d", &n)
	return q[:i], n
}

func runBusScenario(rt *Runtime, r *RunCtx, s *Script) {
	rt.Bubble(0, func() {
		maxSteps := 6000
		// map iteration inside the instrumented packages follows the seed too (one seed = one execution)
		SetMapOrder(pick(newRng(s.Seed), "asc", "desc", "shuffle"), s.Seed)
		defer SetMapOrder("", 0)
		sc := simrt.Start(s.Seed, maxSteps)
		bus := pubsub.NewEventBus()
		nTopics := 2
		srcs := map[string]chan coretypes.ResultEvent{}
		for i := 0; i < nTopics; i++ {
			name := fmt.Sprintf("t%d", i)
			srcs[name] = make(chan coretypes.ResultEvent)
			if err := bus.AddTopic(name, srcs[name]); err != nil {
				r.Violate("C20", "bus_add_topic_failed", nil, "AddTopic: %v", err)
			}
		}
		// split the op list per actor
		actors := map[int][]Op{}
		for _, op := range s.Ops {
			if op.K == "bus" {
				actors[op.W] = append(actors[op.W], op)
			}
		}
		ids := make([]int, 0, len(actors))
		for id := range actors {
			ids = append(ids, id)
		}
		sort.Ints(ids)
		var done atomic.Int32
		doneCh := make(chan struct{}, 64)
		var orderViol atomic.Int32
		var delivered atomic.Int64
		for _, id := range ids {
			ops := actors[id]
			id := id
			simrt.Go(fmt.Sprintf("actor%d", id), func() {
				defer func() { done.Add(1); doneCh <- struct{}{} }()
				var subs []*busSub
				seq := 0
				for _, op := range ops {
					simrt.Yield("actor:op")
					topic := fmt.Sprintf("t%d", op.Ref%nTopics)
					switch op.Mut {
					case "sub":
						ch, unsub, err := bus.Subscribe(topic)
						if err == nil {
							subs = append(subs, &busSub{topic: topic, ch: ch, unsub: unsub, last: map[int]int{}, open: true})
						}
					case "unsub":
						if len(subs) > 0 {
							sb := subs[op.Ref%len(subs)]
							if sb.unsub != nil {
								sb.unsub()
								sb.unsub = nil
							}
						}
					case "recv":
						if len(subs) > 0 {
							sb := subs[op.Ref%len(subs)]
							for k := 0; k < 3 && sb.open; k++ {
								simrt.Yield("actor:recv")
								// a subscriber blocks on its channel (the bus sends without blocking); the fake-clock timeout
								// fires only when nothing else in the bubble can run
								select {
								case ev, ok := <-sb.ch:
									if !ok {
										sb.open = false
										break
									}
									t, n := evSeq(ev.Query)
									delivered.Add(1)
									pubID, seqNo := n/1000, n%1000
									if prev, seen := sb.last[pubID]; t != sb.topic || (seen && seqNo <= prev) {
										orderViol.Add(1)
									}
									sb.last[pubID] = seqNo
								case <-time.After(20 * time.Millisecond):
								}
								simrt.Yield("actor:recv-done")
							}
						}
					case "pub": // this actor is a publisher of the topic
						src := srcs[topic]
						simrt.Yield("actor:pub")
						select {
						case src <- coretypes.ResultEvent{Query: fmt.Sprintf("%s#%d", topic, id*1000+seq)}:
						case <-time.After(10 * time.Millisecond):
						}
						simrt.Yield("actor:pub-done")
						seq++
					case "topics":
						_ = bus.Topics()
					case "rmtopic":
						bus.RemoveTopic(topic)
					case "addtopic":
						_ = bus.AddTopic(fmt.Sprintf("x%d", op.Ref), make(chan coretypes.ResultEvent))
					}
				}
			})
		}
		// the root waits (yielding) until every actor is done or the budget is exhausted
		// (blocking, so that the fake clock can advance when every actor waits for a timeout)
		for i := 0; i < len(ids); i++ {
			<-doneCh
		}
		finished := int(done.Load()) == len(ids)
		// bounded liveness after the actors are done: a fresh subscriber gets a fresh event on an open topic
		live := true
		if finished && !sc.Exhausted {
			ch, unsub, err := bus.Subscribe("t0")
			if err == nil {
				got := false
				for k := 0; k < 40 && !got && !sc.Exhausted; k++ {
					simrt.Yield("root:probe")
					simrt.Go("probe-pub", func() {
						select {
						case srcs["t0"] <- coretypes.ResultEvent{Query: "t0#999999"}:
						case <-time.After(15 * time.Millisecond):
						}
					})
					simrt.Yield("root:probe")
					select {
					case _, ok := <-ch:
						got = ok
					case <-time.After(20 * time.Millisecond):
					}
				}
				unsub()
				live = got
			}
		}
		digest := sc.Digest()
		steps := sc.Step
		sc.Stop()
		r.SimSecs++
		r.Count("o:bus_scenarios")
		r.Add("o:bus_scheduler_steps", int64(steps))
		r.Add("o:bus_events_delivered", delivered.Load())
		r.State("sched:" + digest[:16])
		r.Logf("bus scenario steps=%d digest=%s delivered=%d finished=%v", steps, digest, delivered.Load(), finished)
		for _, p := range sc.Panics {
			r.Violate("C20", "goroutine_panic", map[string]string{"component": "pubsub", "site": panicSite(&PanicInfo{Stack: p.Stack, Value: p.Value}), "panic": panicKind(p.Value)}, "goroutine %s panicked: %s", p.Goroutine, p.Value)
		}
		seen := map[string]bool{}
		for _, f := range sc.Findings {
			if !seen[f] {
				seen[f] = true
				r.Violate("C20", "lock_discipline", map[string]string{"component": "pubsub", "what": strings.SplitN(f, "@", 2)[0]}, "%s: a shared map is written while the goroutine holds only a read lock", f)
			}
		}
		if orderViol.Load() > 0 {
			r.Violate("C20", "bus_delivery_out_of_order", nil, "%d events reached a subscriber out of order or on the wrong topic", orderViol.Load())
		}
		if !finished {
			spin := make([]string, 0)
			for k := range sc.SpinSites {
				spin = append(spin, k)
			}
			sort.Strings(spin)
			r.Violate("C20", "no_progress_in_bus", map[string]string{"kind": "actors_stuck"}, "%d of %d actors did not finish within %d scheduler steps (lock spin sites: %v)", len(ids)-int(done.Load()), len(ids), maxSteps, spin)
		} else if !live {
			r.Violate("C20", "no_progress_in_bus", map[string]string{"kind": "fresh_subscriber_starved"}, "after all actors finished a fresh subscriber did not receive a fresh event")
		}
	})
}

func genBusScript(rng *rand.Rand, seed uint64) *Script {
	s := &Script{Prop: "C20", Seed: seed, Extra: map[string]string{"sched": "bus"}, Gen: DefaultGenesisSpec()}
	nActors := 2 + rng.IntN(5)
	var ops []Op
	for a := 0; a < nActors; a++ {
		publisher := a == 0 || rng.IntN(3) == 0
		for i, n := 0, 3+rng.IntN(12); i < n; i++ {
			op := Op{K: "bus", W: a, Ref: rng.IntN(8)}
			if publisher {
				op.Mut = pick(rng, "pub", "pub", "pub", "topics", "sub")
			} else {
				op.Mut = pick(rng, "sub", "sub", "recv", "recv", "recv", "unsub", "unsub", "topics", "addtopic", "rmtopic")
			}
			ops = append(ops, op)
		}
	}
	// interleave the actors' ops in the script (the order inside one actor is what matters)
	s.Ops = ops
	return s
}
