package evsim

import (
	"bytes"
	"encoding/hex"
	"errors"
	"fmt"
	"math/big"
	"math/rand/v2"
	"sort"
	"strings"
	"time"

	evmtypes "github.com/EscanBE/evermint/v12/x/evm/types"
	sdk "github.com/cosmos/cosmos-sdk/types"
	"github.com/ethereum/go-ethereum/common"
	"github.com/ethereum/go-ethereum/core"
	"github.com/ethereum/go-ethereum/core/rawdb"
	"github.com/ethereum/go-ethereum/core/state"
	ethtypes "github.com/ethereum/go-ethereum/core/types"
	"github.com/ethereum/go-ethereum/core/vm"
	ethcrypto "github.com/ethereum/go-ethereum/crypto"
	"github.com/ethereum/go-ethereum/trie"
)

// ---- C02: EVM transactions execute exactly as go-ethereum's reference state transition ---------------
//
// For every delivered Ethereum transaction that does not reach a custom precompile, the pre-state dump is
// mirrored into go-ethereum's own state.StateDB (in-memory trie) and the transaction is executed by the
// module's OWN upstream core.StateTransition + interpreter (the same Go module the application links, so
// every difference is attributable to /repo's StateDB or its copy of the transition). Compared: consensus
// error vs accepted, VM error, return data, gas used, logs, and nonce / balance / code / storage of every
// account in the union of both post-states. The documented differences are encoded and nothing else:
// fee routing (geth: tip to coinbase, base fee burnt; evermint: gasUsed x price to the fee collector), the
// coinbase and the registered custom precompile addresses are warm.

// refStateDB adds exactly the two documented warm-ups to go-ethereum's StateDB.
type refStateDB struct {
	*state.StateDB
	coinbase common.Address
	cpcs     []common.Address
}

func (r *refStateDB) PrepareAccessList(sender common.Address, dst *common.Address, precompiles []common.Address, list ethtypes.AccessList) {
	r.StateDB.PrepareAccessList(sender, dst, precompiles, list)
	r.StateDB.AddAddressToAccessList(r.coinbase)
	for _, a := range r.cpcs {
		r.StateDB.AddAddressToAccessList(a)
	}
}

// touchTracer notices calls that reach a custom precompile address (those transactions are other properties').
type touchTracer struct {
	cpcs    map[common.Address]bool
	touched bool
	targets map[common.Address]bool // every call target / self-destruct beneficiary
	failed  int                     // frames (top-level included) that ended with an error: their effects must vanish
}

func (t *touchTracer) CaptureTxStart(uint64) {}
func (t *touchTracer) CaptureTxEnd(uint64)   {}
func (t *touchTracer) CaptureStart(_ *vm.EVM, _ common.Address, to common.Address, _ bool, _ []byte, _ uint64, _ *big.Int) {
	t.targets[to] = true
	if t.cpcs[to] {
		t.touched = true
	}
}
func (t *touchTracer) CaptureEnd(_ []byte, _ uint64, _ time.Duration, err error) {
	if err != nil {
		t.failed++
	}
}
func (t *touchTracer) CaptureEnter(_ vm.OpCode, _ common.Address, to common.Address, _ []byte, _ uint64, _ *big.Int) {
	t.targets[to] = true
	if t.cpcs[to] {
		t.touched = true
	}
}
func (t *touchTracer) CaptureExit(_ []byte, _ uint64, err error) {
	if err != nil {
		t.failed++
	}
}
func (t *touchTracer) CaptureState(uint64, vm.OpCode, uint64, uint64, *vm.ScopeContext, []byte, int, error) {
}
func (t *touchTracer) CaptureFault(uint64, vm.OpCode, uint64, uint64, *vm.ScopeContext, int, error) {}

// codeOf finds the code stored under a code hash in a dump.
func codeOf(d *Dump, hash []byte) []byte {
	return d.Get("evm", append(append([]byte(nil), evmtypes.KeyPrefixCode...), hash...))
}

// mirrorState builds a go-ethereum state holding what the dump holds (EVM-denomination balances).
func mirrorState(d *Dump) (*state.StateDB, state.Database, error) {
	v := ViewOf(d)
	db := state.NewDatabaseWithConfig(rawdb.NewMemoryDatabase(), &trie.Config{Preimages: true})
	sdb, err := state.New(common.Hash{}, db, nil)
	if err != nil {
		return nil, nil, err
	}
	for _, a := range v.Addresses() {
		acc := v.Acc[a]
		if acc == nil {
			// a bank balance without an account record: the application's StateDB reads it as a balance of an account
			if b := v.Balance(a, BaseDenom); b.Sign() > 0 {
				sdb.SetBalance(a, b)
			}
			continue
		}
		sdb.SetNonce(a, acc.Seq)
		sdb.SetBalance(a, v.Balance(a, BaseDenom))
		if ch := v.CodeHash[a]; len(ch) > 0 && !bytes.Equal(ch, evmtypes.EmptyCodeHash) {
			sdb.SetCode(a, codeOf(d, ch))
		}
		for k, val := range v.Storage[a] {
			sdb.SetState(a, k, common.BytesToHash(val))
		}
	}
	root, err := sdb.Commit(false)
	if err != nil {
		return nil, nil, err
	}
	sdb, err = state.New(root, db, nil)
	return sdb, db, err
}

type refOutcome struct {
	ConsensusErr error
	Res          *core.ExecutionResult
	Logs         []*ethtypes.Log
	Post         map[common.Address]state.DumpAccount
	Touched      bool
	Targets      map[common.Address]bool
	Refund       uint64 // go-ethereum's refund counter at the end of the execution (before the cap)
	FailedFrames int    // call frames that ended with an error in the reference execution
}

// runReference executes tx on the mirrored pre-state with go-ethereum's own state transition.
func (w *World) runReference(rec *BlockRecord, t *TxInfo, coinbase common.Address, cpcs []common.Address) (*refOutcome, error) {
	sdb, _, err := mirrorState(t.Obs.Before)
	if err != nil {
		return nil, err
	}
	params := w.C.Node.App.EvmKeeper.GetParams(w.ctx())
	cfg := params.ChainConfig.EthereumConfig(big.NewInt(EvmChainID))
	baseFee := BaseFeeOf(t.Obs.Before)
	signer := ethtypes.MakeSigner(cfg, big.NewInt(rec.Height))
	msg, err := t.EthTx.AsMessage(signer, baseFee)
	if err != nil {
		return nil, err
	}
	gasLimit := uint64(0)
	switch mg := rec.MaxGas; {
	case mg == -1:
		gasLimit = ^uint64(0)
	case mg > 0:
		gasLimit = uint64(mg)
	}
	cm := map[common.Address]bool{}
	for _, a := range cpcs {
		cm[a] = true
	}
	tr := &touchTracer{cpcs: cm, targets: map[common.Address]bool{}}
	blockCtx := vm.BlockContext{
		CanTransfer: core.CanTransfer, Transfer: core.Transfer,
		GetHash: func(n uint64) common.Hash {
			if r := w.recordAt(int64(n)); r != nil {
				return common.BytesToHash(r.Block.Hash())
			}
			return common.Hash{}
		},
		Coinbase: coinbase, GasLimit: gasLimit, BlockNumber: big.NewInt(rec.Height), Time: big.NewInt(rec.Req.Time.Unix()),
		Difficulty: big.NewInt(0), BaseFee: baseFee,
	}
	ref := &refStateDB{StateDB: sdb, coinbase: coinbase, cpcs: cpcs}
	evm := vm.NewEVM(blockCtx, core.NewEVMTxContext(msg), ref, cfg, vm.Config{Debug: true, Tracer: tr, ExtraEips: params.EIPs()})
	sdb.Prepare(t.EthTx.Hash(), 0)
	gp := new(core.GasPool).AddGas(^uint64(0))
	out := &refOutcome{}
	res, cerr := core.ApplyMessage(evm, msg, gp)
	out.Touched = tr.touched
	out.Targets = tr.targets
	out.FailedFrames = tr.failed
	if cerr != nil {
		out.ConsensusErr = cerr
		return out, nil
	}
	out.Res = res
	out.Refund = sdb.GetRefund()
	out.Logs = sdb.GetLogs(t.EthTx.Hash(), common.Hash{})
	if _, err := sdb.Commit(true); err != nil {
		return nil, err
	}
	d := sdb.RawDump(&state.DumpConfig{})
	out.Post = d.Accounts
	return out, nil
}

func vmErrStr(e error) string {
	if e == nil {
		return ""
	}
	return e.Error()
}

func isZeroHashBytes(b []byte) bool { return len(b) == 0 || allZero(b) }

// oracleC02 compares one delivered transaction with the reference.
func oracleC02(w *World, rec *BlockRecord, t *TxInfo) {
	r := w.R
	if !t.IsEthShape || t.EthTx == nil || t.Obs == nil || t.Obs.After == nil || !t.HasEthEvent {
		return
	}
	if s := w.ByHash[t.EthTx.Hash()]; s != nil && (s.Erc20 != nil || s.PcCall != nil) {
		return
	}
	pre, post := ViewOf(t.Obs.Before), ViewOf(t.Obs.After)
	if a := pre.Acc[t.From]; a == nil || a.Vesting != nil || a.IsModule {
		r.Count("o:c02_excluded_sender_kind")
		return
	}
	if rec.Proposer < 0 || rec.Proposer >= len(w.G.Validators) {
		return
	}
	coinbase := w.G.Validators[rec.Proposer].Operator.Addr
	metas, _, _ := registryOf(t.Obs.Before)
	cpcs := sortedAddrs(metas)
	if t.EthTx.To() != nil {
		if _, isCpc := metas[*t.EthTx.To()]; isCpc {
			r.Count("o:c02_excluded_precompile_call")
			return
		}
	}
	r.At(rec.Height, t.Pos)
	ref, err := w.runReference(rec, t, coinbase, cpcs)
	if err != nil {
		r.Cross["c02:reference_unavailable"]++
		return
	}
	if ref.Touched {
		r.Count("o:c02_excluded_precompile_call")
		return
	}
	blocked := w.C.Node.App.ModuleAccountAddrs()
	for a := range ref.Targets {
		if blocked[sdk.AccAddress(a.Bytes()).String()] {
			r.Count("o:c02_excluded_protected_account_target")
			return
		}
		// module and vesting accounts are governed by Cosmos-side rules go-ethereum cannot know (C15): not compared here
		if ai := pre.Acc[a]; ai != nil && (ai.IsModule || ai.Vesting != nil) {
			r.Count("o:c02_excluded_protected_account_target")
			return
		}
	}
	tx := t.EthTx
	kind := "call"
	if tx.To() == nil {
		kind = "create"
	}
	// --- consensus error class
	if ref.ConsensusErr != nil {
		if errors.Is(ref.ConsensusErr, core.ErrInsufficientFunds) {
			// geth requires balance >= gasLimit x feeCap + value up front; evermint admits on the effective fee (C05 / C09)
			r.Count("o:c02_excluded_fee_admission")
			return
		}
		if t.HasReceipt {
			r.Violate("C02", "accepted_what_geth_rejects", map[string]string{"geth": errClass(ref.ConsensusErr.Error())}, "evermint executed a tx that go-ethereum's state transition rejects: %v", ref.ConsensusErr)
		}
		r.Count("o:c02_both_reject")
		return
	}
	if !t.HasReceipt {
		if strings.Contains(t.Res.Log, "out of gas") && strings.Contains(t.Res.Log, "block") {
			return // block gas exhaustion: a Cosmos-side rule
		}
		r.Violate("C02", "rejected_what_geth_accepts", map[string]string{"evermint": errClass(t.Res.Log)}, "go-ethereum executes the tx (gas used %d, vm error %q), evermint failed it as a whole: %s", ref.Res.UsedGas, vmErrStr(ref.Res.Err), clip(t.Res.Log))
		return
	}
	r.Count("o:c02_compared")
	r.Probe("c02_tx_with_failed_frame_compared", ref.FailedFrames > 0)
	disc := func(field string) map[string]string { return map[string]string{"field": field, "tx": kind} }
	// a difference in a transaction with failed call frames is also C03's business: whatever a reverted frame did
	// must be gone, and go-ethereum's journal is the reference for "gone"
	differs := func(d map[string]string, format string, args ...interface{}) {
		r.Violate("C02", "differs_from_geth", d, format, args...)
		if ref.FailedFrames > 0 {
			r.Violate("C03", "reverted_frame_left_trace", map[string]string{"contract": "evm", "field": d["field"], "tx": d["tx"]}, "(transaction with %d failed call frames) "+format, append([]interface{}{ref.FailedFrames}, args...)...)
		}
	}
	resp := DecodeDeliveredEth(t.Res)
	gotErr := t.Rc.Err
	if resp != nil {
		gotErr = resp.VmError
	}
	if gotErr != vmErrStr(ref.Res.Err) {
		differs(disc("vm_error"), "vm error %q, go-ethereum gives %q (gas used %d vs %d)", gotErr, vmErrStr(ref.Res.Err), t.Rc.GasUsed, ref.Res.UsedGas)
		return
	}
	if t.Rc.GasUsed != ref.Res.UsedGas {
		differs(disc("gas_used"), "gas used %d, go-ethereum uses %d (gas limit %d, vm error %q)", t.Rc.GasUsed, ref.Res.UsedGas, tx.Gas(), gotErr)
		if ref.Refund > 0 && t.Rc.GasUsed < ref.Res.UsedGas {
			// go-ethereum applied min(refund counter, consumed/5): anything lower means more than a fifth was refunded
			r.Violate("C05", "storage_refund_above_cap", nil, "gas used %d is below what the EIP-3529 cap allows (%d with refund counter %d)", t.Rc.GasUsed, ref.Res.UsedGas, ref.Refund)
		}
	}
	r.Probe("c02_refund_earning_tx_compared", ref.Refund > 0)
	if ref.Refund == 0 {
		// nothing refunded in the reference execution: the receipt's gas used is the gas consumed, which covers at least
		// the intrinsic gas (21000 / 53000 + call data + 2400 per access-list entry + 1900 per storage key, repeats included)
		if intr := IntrinsicGas(tx.Data(), tx.AccessList(), tx.To() == nil); t.Rc.GasUsed < intr {
			r.Violate("C05", "gas_used_below_intrinsic", nil, "gas used %d is below the intrinsic gas %d although nothing was refunded", t.Rc.GasUsed, intr)
		}
	}
	if resp != nil && !bytes.Equal(resp.Ret, ref.Res.ReturnData) {
		differs(disc("return_data"), "return data %x, go-ethereum returns %x", clipB(resp.Ret), clipB(ref.Res.ReturnData))
	}
	if t.Rc.Receipt != nil && !sameLogs(t.Rc.Receipt.Logs, ref.Logs) {
		differs(disc("logs"), "%d logs, go-ethereum emits %d (or contents differ)", len(t.Rc.Receipt.Logs), len(ref.Logs))
	}
	// --- post-state of every account in the union of both post-states
	price := EffectivePrice(tx, BaseFeeOf(t.Obs.Before))
	fee := new(big.Int).Mul(new(big.Int).SetUint64(t.Rc.GasUsed), price)
	tip := new(big.Int).Sub(price, BaseFeeOf(t.Obs.Before))
	if tx.Type() != ethtypes.DynamicFeeTxType {
		tip = new(big.Int).Sub(tx.GasPrice(), BaseFeeOf(t.Obs.Before))
	}
	if tip.Sign() < 0 {
		tip = new(big.Int)
	}
	tipFee := new(big.Int).Mul(new(big.Int).SetUint64(ref.Res.UsedGas), tip)
	addrs := map[common.Address]bool{}
	for a := range ref.Post {
		addrs[a] = true
	}
	for _, a := range post.Addresses() {
		addrs[a] = true
	}
	for _, a := range sortedAddrs(addrs) {
		ra, inRef := ref.Post[a]
		ea := post.Acc[a]
		// nonce
		var rn, en uint64
		if inRef {
			rn = ra.Nonce
		}
		if ea != nil {
			en = ea.Seq
		}
		if ea != nil && (ea.IsModule || ea.Vesting != nil) && !inRef {
			continue
		}
		// an account that had code before the tx, is gone afterwards and still exists for the reference did not
		// self-destruct (or its self-destruct was reverted): C15's "never deletes an account that still has code"
		if ea == nil && inRef && len(pre.CodeHash[a]) > 0 && len(ra.Code) > 0 {
			r.Violate("C15", "contract_deleted_without_self_destruct", nil, "contract %s (code %d bytes) is deleted by the tx although in the reference execution no self-destruct of it survives", a.Hex(), len(ra.Code))
		}
		if rn != en {
			differs(disc("nonce"), "nonce of %s is %d, go-ethereum gives %d", a.Hex(), en, rn)
		}
		// balance, with the documented fee routing removed
		rb := new(big.Int)
		if inRef {
			rb, _ = new(big.Int).SetString(ra.Balance, 10)
		}
		eb := new(big.Int).Set(post.Balance(a, BaseDenom))
		if a == FeeCollectorAddr {
			eb.Sub(eb, fee)
		}
		if a == coinbase {
			rb.Sub(rb, tipFee)
		}
		if rb.Cmp(eb) != 0 {
			role := "other"
			switch a {
			case t.From:
				role = "sender"
			case coinbase:
				role = "coinbase"
			case FeeCollectorAddr:
				role = "fee_collector"
			}
			differs(map[string]string{"field": "balance", "tx": kind, "account": role}, "balance of %s (%s) is %s (fee routing removed), go-ethereum gives %s", a.Hex(), role, eb, rb)
		}
		// code
		var rc []byte
		if inRef {
			rc = ra.Code
		}
		var ec []byte
		if ch := post.CodeHash[a]; len(ch) > 0 && !bytes.Equal(ch, evmtypes.EmptyCodeHash) {
			ec = codeOf(t.Obs.After, ch)
		}
		if !bytes.Equal(rc, ec) {
			differs(disc("code"), "code of %s: %d bytes, go-ethereum has %d bytes", a.Hex(), len(ec), len(rc))
		}
		// storage (absent = zero)
		slots := map[common.Hash]bool{}
		for k := range post.Storage[a] {
			slots[k] = true
		}
		if inRef {
			for k := range ra.Storage {
				slots[k] = true
			}
		}
		for k := range slots {
			var rv, ev common.Hash
			if inRef {
				if s, ok := ra.Storage[k]; ok {
					rv = common.HexToHash(s)
				}
			}
			if b := post.Storage[a][k]; len(b) > 0 {
				ev = common.BytesToHash(b)
			}
			if rv != ev {
				differs(disc("storage"), "storage %s[%s] = %s, go-ethereum has %s", a.Hex(), k.Hex(), ev.Hex(), rv.Hex())
				break
			}
		}
		// existence of an all-zero record is recorded, not a verdict
		if inRef != (ea != nil) && rn == 0 && rb.Sign() == 0 && len(rc) == 0 {
			r.Cross["c02:empty_account_existence_differs"]++
		}
	}
}

// ---- random program generator -------------------------------------------------------------------------

const nRand = 6

// RandAddr is the genesis address of generated contract i.
func RandAddr(i int) common.Address {
	var a common.Address
	copy(a[:], []byte{0xc0, 0xde, 0xaa})
	a[19] = byte(i + 1)
	return a
}

// genProgram assembles a random, stack-neutral sequence of state-touching statements.
func genProgram(rng *rand.Rand, self int, eoas []common.Address, cpc []common.Address) []byte {
	return genProgramStyled(rng, self, eoas, cpc, 0)
}

// genProgramStyled: style 0 = one straight-line body. style 1 = "revert-heavy": two bodies selected by bit 0 of the
// first call-data word (so one contract behaves differently in different frames of one transaction), calls pass an
// explicit mode word and prefer the other generated programs and the contract itself (re-entrancy), and a body ends
// with REVERT / INVALID / SELFDESTRUCT about as often as it returns.
func genProgramStyled(rng *rand.Rand, self int, eoas []common.Address, cpc []common.Address, style int) []byte {
	a := NewAsm()
	type childCode struct {
		label string
		code  []byte
	}
	var children []childCode
	target := func() common.Address {
		if style == 1 && rng.IntN(10) < 4 {
			return RandAddr(pick(rng, self, rng.IntN(nRand), rng.IntN(nRand)))
		}
		switch k := rng.IntN(10); {
		case k < 5:
			return RandAddr(rng.IntN(nRand))
		case k < 7:
			return eoas[rng.IntN(len(eoas))]
		case k < 8:
			return common.BigToAddress(big.NewInt(int64(1 + rng.IntN(9)))) // standard precompiles
		case k < 9:
			return common.HexToAddress("0x00000000000000000000000000000000000f00d1") // never existed
		default:
			return common.Address{}
		}
	}
	bodies := []string{""}
	if style == 1 {
		bodies = []string{"A", "B"}
		a.Push(0).Op(vm.CALLDATALOAD).Push(1).Op(vm.AND).PushLabel("bodyB").Op(vm.JUMPI)
	}
	for bi, body := range bodies {
		if bi == 1 {
			a.Label("bodyB")
		}
		n := 2 + rng.IntN(9)
		for i := 0; i < n; i++ {
			switch k := rng.IntN(100); {
			case k < 16: // SSTORE
				val := pick[interface{}](rng, 0, 0, 1, 2, 0xff)
				a.Push(val).Push(rng.IntN(4)).Op(vm.SSTORE)
			case k < 20: // SSTORE of something dynamic
				a.Op(vm.CALLVALUE).Push(rng.IntN(4)).Op(vm.SSTORE)
			case k < 26:
				a.Push(rng.IntN(5)).Op(vm.SLOAD, vm.POP)
			case k < 34: // LOGn
				nt := rng.IntN(3)
				for j := 0; j < nt; j++ {
					a.Push(0x10 + j)
				}
				a.Push(rng.IntN(40)).Push(0).Op(vm.OpCode(int(vm.LOG0) + nt))
			case k < 42:
				a.Push(target()).Op(pick(rng, vm.BALANCE, vm.EXTCODESIZE, vm.EXTCODEHASH), vm.POP)
			case k < 45:
				a.Op(vm.COINBASE, pick(rng, vm.BALANCE, vm.EXTCODESIZE), vm.POP)
			case k < 48 && len(cpc) > 0: // touch (never call) a custom precompile address
				a.Push(cpc[rng.IntN(len(cpc))]).Op(pick(rng, vm.BALANCE, vm.EXTCODESIZE, vm.EXTCODEHASH), vm.POP)
			case k < 50:
				a.Op(vm.SELFBALANCE, vm.POP)
			case k < 53:
				a.Push(32).Push(0).Push(0).Push(target()).Op(vm.EXTCODECOPY)
			case k < 76: // a call of some kind
				op := pick(rng, vm.CALL, vm.CALL, vm.STATICCALL, vm.DELEGATECALL, vm.CALLCODE)
				if style == 1 && rng.IntN(3) > 0 {
					a.Push(rng.IntN(2)).Push(0).Op(vm.MSTORE) // the mode word the callee branches on
				}
				a.Push(32).Push(0).Push(32).Push(0) // outSize outOff inSize inOff
				if op == vm.CALL || op == vm.CALLCODE {
					a.Push(pick(rng, 0, 0, 1, 1000))
				}
				a.Push(target())
				switch rng.IntN(4) {
				case 0:
					a.Push(pick(rng, 2300, 10000, 50000, 700))
				default:
					a.Op(vm.GAS)
				}
				a.Op(op)
				if rng.IntN(3) == 0 {
					a.Push(0).Op(vm.MSTORE) // keep the success flag in memory (it may be returned)
				} else {
					a.Op(vm.POP)
				}
			case k < 84: // CREATE / CREATE2 of a small child
				child := pick(rng, InitCodeFor(TmplStore(), func(x *Asm) { x.Push(7).Push(1).Op(vm.SSTORE) }), InitCodeFor(TmplSelfDestruct(), nil), []byte{byte(vm.PUSH1), 0, byte(vm.PUSH1), 0, byte(vm.REVERT)}, []byte{byte(vm.INVALID)}, InitCodeFor([]byte{}, func(x *Asm) { x.Push(9).Push(2).Op(vm.SSTORE) }))
				lbl := fmt.Sprintf("ch%s%d", body, i)
				a.Push(len(child)).PushLabel(lbl).Push(64).Op(vm.CODECOPY)
				if rng.IntN(2) == 0 {
					a.Push(len(child)).Push(64).Push(pick(rng, 0, 1)).Op(vm.CREATE, vm.POP)
				} else {
					a.Push(rng.IntN(3)).Push(len(child)).Push(64).Push(pick(rng, 0, 1)).Op(vm.CREATE2, vm.POP)
				}
				children = append(children, childCode{lbl, child})
			case k < 88: // clear a slot (refund)
				a.Push(0).Push(rng.IntN(4)).Op(vm.SSTORE)
			case k < 92:
				a.Op(pick(rng, vm.RETURNDATASIZE, vm.GAS, vm.CALLER, vm.ORIGIN, vm.ADDRESS, vm.CODESIZE, vm.GASPRICE, vm.GASPRICE, vm.BASEFEE, vm.CHAINID, vm.NUMBER, vm.TIMESTAMP, vm.GASLIMIT, vm.COINBASE))
			if rng.IntN(2) == 0 {
				a.Push(4 + rng.IntN(3)).Op(vm.SSTORE) // what the opcode answered becomes state
			} else {
				a.Op(vm.POP)
			}
			default: // early end
				switch rng.IntN(5) {
				case 0:
					a.Push(32).Push(0).Op(vm.REVERT)
				case 1:
					a.Op(vm.INVALID)
				case 2:
					a.Push(target()).Op(vm.SELFDESTRUCT)
				case 3:
					a.Push(32).Push(0).Op(vm.RETURN)
				default:
					a.Op(vm.STOP)
				}
			}
		}
		switch k := rng.IntN(100); {
		case style == 1 && k < 30:
			a.Push(32).Push(0).Op(vm.REVERT)
		case style == 1 && k < 40:
			a.Op(vm.INVALID)
		case style == 1 && k < 55:
			a.Push(target()).Op(vm.SELFDESTRUCT)
		default:
			a.Push(32).Push(0).Op(vm.RETURN)
		}
	}
	for _, c := range children {
		a.Mark(c.label).Raw(c.code)
	}
	return a.Bytes()
}

// deferred child code must be appended after the main body: genProgram uses defers for that, so the
// assembler resolves labels only in Bytes(); wrap to run the defers first.
func genProgramBytes(rng *rand.Rand, self int, eoas, cpc []common.Address) []byte {
	return genProgram(rng, self, eoas, cpc)
}

func genC02(rng *rand.Rand, seed uint64, tier string) *Script {
	g, _ := mixedGenesis(rng)
	g.Validators = 1 + rng.IntN(3)
	g.Wallets = 4 + rng.IntN(4)
	g.Erc20Native, g.StakingCpc = rng.IntN(2) == 0, rng.IntN(2) == 0
	g.MaxGas = pick(rng, int64(40_000_000), -1, 5_000_000)
	g.BaseFee = pick(rng, "1000000000", "7", "0")
	g.MinGasPrice = "0"
	var eoas []common.Address
	for i := 0; i < g.Wallets; i++ {
		eoas = append(eoas, NewWallet("w", i).Addr)
	}
	cpc := []common.Address{common.HexToAddress("0xcc01000000000000000000000000000000000001"), common.HexToAddress("0xcc02000000000000000000000000000000000002")}
	for i := 0; i < nRand; i++ {
		c := GenContract{Addr: RandAddr(i).Hex(), Code: hex.EncodeToString(genProgramBytes(rng, i, eoas, cpc))}
		if rng.IntN(2) == 0 {
			c.Balance = pick(rng, "1", "1000000", "5000000000000000000")
		}
		if rng.IntN(2) == 0 {
			c.Storage = map[string]string{}
			for s := 0; s < 1+rng.IntN(4); s++ {
				c.Storage[fmt.Sprintf("0x%064x", s)] = fmt.Sprintf("0x%064x", pick(rng, 0, 1, 0xff))
			}
		}
		g.Contracts = append(g.Contracts, c)
	}
	s := &Script{Prop: "C02", Seed: seed, Gen: g, Extra: map[string]string{}}
	ops := []Op{{K: "block", Dt: 5}}
	nb := 4 + rng.IntN(8)
	for b := 0; b < nb; b++ {
		for i, n := 0, 1+rng.IntN(6); i < n; i++ {
			w := rng.IntN(g.Wallets)
			switch k := rng.IntN(10); {
			case k < 6: // call a generated program with assorted gas, value, type and access list
				op := Op{K: "eth", W: w, To: RandAddr(rng.IntN(nRand)).Hex(), Typ: pick(rng, 0, 1, 2), Price: pick(rng, "b", "b+1", "b*2"), Tip: pick(rng, "0", "1", "1000000000"),
					Gas: pick(rng, "i+30000", "i+100000", "i+400000", "i+2000000", "i+5000", "i+700"), Val: pick(rng, "0", "0", "1", "1000"), Data: hexWord(rng.IntN(3))}
				if op.Typ >= 1 && rng.IntN(2) == 0 {
					op.Mut = "al"
				}
				ops = append(ops, op)
			case k < 7: // deploy a fresh random program
				code := genProgramBytes(rng, 9, eoas, cpc)
				ops = append(ops, Op{K: "eth", W: w, Init: "raw", Data: hex.EncodeToString(code), Gas: pick(rng, "i+600000", "i+100000"), Price: "b+1", Val: pick(rng, "0", "5")})
			case k < 8:
				ops = append(ops, Op{K: "eth", W: w, To: fmt.Sprintf("n:%d", rng.IntN(30)), Gas: "i+300000", Price: "b+1", Data: hexWord(rng.IntN(3))})
			default:
				ops = append(ops, genMixedTx(rng, &g))
			}
		}
		ops = append(ops, Op{K: "block", Dt: pick(rng, 1, 5, 5), Prop: rng.IntN(3), Byz: rng.IntN(6) == 0})
	}
	ops = append(ops, Op{K: "block", Dt: 5})
	s.Ops = ops
	return s
}

func c02AfterBlock(w *World, rec *BlockRecord, txs []*TxInfo) {
	for _, t := range txs {
		oracleC02(w, rec, t)
	}
}

func init() {
	templates["raw"] = func() []byte { return nil }
	templates["rawinit"] = func() []byte { return nil }
	Arms["C02"] = &Arm{Gen: genC02, Run: runPc()}
	_ = sort.Strings
	_ = ethcrypto.Keccak256
}
