package evsim

import (
	"bytes"
	"encoding/hex"
	"encoding/json"
	"fmt"
	authtypes "github.com/cosmos/cosmos-sdk/x/auth/types"
	ethcrypto "github.com/ethereum/go-ethereum/crypto"
	"math/big"
	"math/rand/v2"
	"sort"
	"strings"

	sdkmath "cosmossdk.io/math"
	cpctypes "github.com/EscanBE/evermint/v12/x/cpc/types"
	evmtypes "github.com/EscanBE/evermint/v12/x/evm/types"
	sdk "github.com/cosmos/cosmos-sdk/types"
	"github.com/ethereum/go-ethereum/common"
	ethtypes "github.com/ethereum/go-ethereum/core/types"
)

// ---- C10: each ERC-20 precompile is an exact ERC-20 view of one bank denomination -------------------
//
// Reference model: allowances per (token, owner, spender) kept by the harness across the whole history;
// balances and supply are read from the pre-state dump of every transaction (the bank module IS the
// ledger the property speaks about). For every delivered precompile call the model predicts success,
// return data, the exact log list of the receipt and the balance / supply delta of every account and
// denomination; everything else must be untouched.

// Erc20Call describes one generated precompile call (resolved at build time).
type Erc20Call struct {
	Token  common.Address
	Denom  string
	Method string
	Addr   []common.Address
	Amount *big.Int
	Plan   *ChainPlan
	EOA    common.Address
	// FeeHold is what the ante handler holds back from the sender while the call runs (gas limit x price)
	FeeHold *big.Int
}

type pairKey struct{ Owner, Spender common.Address }

// C10Model is the persistent part of the reference model.
type C10Model struct {
	Allow      map[common.Address]map[pairKey]*big.Int // token -> (owner, spender) -> allowance
	PairTokens map[pairKey]map[common.Address]bool     // tokens on which a pair ever had an approval
	Tainted    map[pairKey]bool
	Off        bool
}

func (w *World) c10() *C10Model {
	if w.C10 == nil {
		w.C10 = &C10Model{Allow: map[common.Address]map[pairKey]*big.Int{}, PairTokens: map[pairKey]map[common.Address]bool{}, Tainted: map[pairKey]bool{}}
	}
	return w.C10
}

func (m *C10Model) allowance(tok common.Address, o, s common.Address) *big.Int {
	if t := m.Allow[tok]; t != nil {
		if v := t[pairKey{o, s}]; v != nil {
			return v
		}
	}
	return new(big.Int)
}

func (m *C10Model) setAllowance(tok common.Address, o, s common.Address, v *big.Int) {
	if m.Allow[tok] == nil {
		m.Allow[tok] = map[pairKey]*big.Int{}
	}
	pk := pairKey{o, s}
	m.Allow[tok][pk] = new(big.Int).Set(v)
	if m.PairTokens[pk] == nil {
		m.PairTokens[pk] = map[common.Address]bool{}
	}
	m.PairTokens[pk][tok] = true
}

// pairCause tells whether the (owner, spender) pair has (or ever had) an approval on ANOTHER token than tok.
func (m *C10Model) pairCause(tok, o, s common.Address) string {
	for t := range m.PairTokens[pairKey{o, s}] {
		if t != tok {
			return "pair_has_approval_on_another_token"
		}
	}
	return "this_token_only"
}

// erc20Tokens lists the registered ERC-20 precompiles (sorted by address) with their denominations.
func (w *World) erc20Tokens() (addrs []common.Address, denoms []string) {
	metas := w.C.Node.App.CPCKeeper.GetAllCustomPrecompiledContractsMeta(w.ctx())
	sort.Slice(metas, func(a, b int) bool { return bytes.Compare(metas[a].Address, metas[b].Address) < 0 })
	for _, m := range metas {
		if m.CustomPrecompiledType != cpctypes.CpcTypeErc20 {
			continue
		}
		var tm struct {
			MinDenom string `json:"min_denom"`
		}
		_ = json.Unmarshal([]byte(m.TypedMeta), &tm)
		addrs = append(addrs, common.BytesToAddress(m.Address))
		denoms = append(denoms, tm.MinDenom)
	}
	return
}

var erc20Sigs = map[string]string{
	"transfer": "transfer(address,uint256)", "transferFrom": "transferFrom(address,address,uint256)", "approve": "approve(address,uint256)",
	"burn": "burn(uint256)", "burnFrom": "burnFrom(address,uint256)", "balanceOf": "balanceOf(address)", "totalSupply": "totalSupply()",
	"allowance": "allowance(address,address)", "name": "name()", "symbol": "symbol()", "decimals": "decimals()",
}

func erc20Writes(method string) bool {
	switch method {
	case "transfer", "transferFrom", "approve", "burn", "burnFrom":
		return true
	}
	return false
}

// resolveAmount: decimal | max | bal | bal+1 | bal/2 | allow | allow+1 (relative to the committed state).
func (w *World) resolveAmount(s string, tok common.Address, denom string, from, spender common.Address) *big.Int {
	v := w.resolveAmount0(s, tok, denom, from, spender)
	if v.Cmp(MaxU256) > 0 {
		v = new(big.Int).Set(MaxU256)
	}
	return v
}

func (w *World) resolveAmount0(s string, tok common.Address, denom string, from, spender common.Address) *big.Int {
	switch {
	case s == "max":
		return new(big.Int).Set(MaxU256)
	case strings.HasPrefix(s, "bal"):
		b := w.C.Node.App.BankKeeper.GetBalance(w.ctx(), sdk.AccAddress(from.Bytes()), denom).Amount.BigInt()
		return relNum(s, b, "bal")
	case strings.HasPrefix(s, "allow"):
		return relNum(s, w.c10().allowance(tok, from, spender), "allow")
	}
	return relNum(s, new(big.Int), "_")
}

// opErc20: K=erc20, W sender, Ref token index, Mut method, A args (addresses symbolic, last = amount), Chain.
func opErc20(w *World, op *Op) {
	toks, denoms := w.erc20Tokens()
	if len(toks) == 0 {
		return
	}
	ti := ((op.Ref % len(toks)) + len(toks)) % len(toks)
	tok, denom := toks[ti], denoms[ti]
	wl := w.wallet(op.W)
	hops := ParseChain(op.Chain)
	call := &Erc20Call{Token: tok, Denom: denom, Method: op.Mut, EOA: wl.Addr}
	// the caller the precompile will see decides what "bal"/"allow" refer to
	probe := w.PlanChain(wl.Addr, hops, tok, nil)
	caller := probe.Caller
	addr := func(i int) common.Address {
		if i < len(op.A) {
			if a, ok := w.ResolveAddr(op.A[i]); ok {
				return a
			}
			if op.A[i] == "caller" {
				return caller
			}
			if op.A[i] == "zero" {
				return common.Address{}
			}
		}
		return common.Address{}
	}
	amt := func(i int, from, spender common.Address) *big.Int {
		if i < len(op.A) {
			return w.resolveAmount(op.A[i], tok, denom, from, spender)
		}
		return new(big.Int)
	}
	var data []byte
	sig := erc20Sigs[op.Mut]
	switch op.Mut {
	case "transfer":
		call.Addr = []common.Address{addr(0)}
		call.Amount = amt(1, caller, caller)
		data = CallData(sig, call.Addr[0], call.Amount)
	case "transferFrom":
		call.Addr = []common.Address{addr(0), addr(1)}
		call.Amount = amt(2, call.Addr[0], caller)
		data = CallData(sig, call.Addr[0], call.Addr[1], call.Amount)
	case "approve":
		call.Addr = []common.Address{addr(0)}
		call.Amount = amt(1, caller, call.Addr[0])
		data = CallData(sig, call.Addr[0], call.Amount)
	case "burn":
		call.Amount = amt(0, caller, caller)
		data = CallData(sig, call.Amount)
	case "burnFrom":
		call.Addr = []common.Address{addr(0)}
		call.Amount = amt(1, call.Addr[0], caller)
		data = CallData(sig, call.Addr[0], call.Amount)
	case "balanceOf":
		call.Addr = []common.Address{addr(0)}
		data = CallData(sig, call.Addr[0])
	case "allowance":
		call.Addr = []common.Address{addr(0), addr(1)}
		data = CallData(sig, call.Addr[0], call.Addr[1])
	default:
		data = CallData(sig)
	}
	call.Plan = w.PlanChain(wl.Addr, hops, tok, data)
	eop := Op{K: "eth", W: op.W, To: call.Plan.To.Hex(), Data: hex.EncodeToString(call.Plan.Data), Gas: "i+900000", Price: "b+1", Typ: op.Typ}
	if op.Gas != "" {
		eop.Gas = op.Gas
	}
	s := w.BuildEthOp(&eop)
	s.Erc20 = call
	w.R.Count("o:erc20_" + op.Mut)
	w.Submit(s, op.Via)
}

type logExp struct {
	Addr   common.Address
	Topics []common.Hash
	Data   []byte
}

type erc20Expect struct {
	OK       bool
	Why      string // failure reason in the model
	Ret      []byte // nil = not compared
	Log      *logExp
	Deltas   map[common.Address]*big.Int // token-denom balance deltas
	Supply   *big.Int                    // supply delta of the token denom
	SetAllow *struct {
		O, S common.Address
		V    *big.Int
	}
	AllowPair *pairKey // the (owner, spender) pair whose allowance the call depends on
}

// evalErc20 is the reference semantics of one call on the given pre-state.
func (m *C10Model) evalErc20(c *Erc20Call, pre *View) *erc20Expect {
	e := &erc20Expect{OK: true, Deltas: map[common.Address]*big.Int{}, Supply: new(big.Int)}
	caller := c.Plan.Caller
	bal := func(a common.Address) *big.Int {
		b := pre.Balance(a, c.Denom)
		if a == c.EOA && c.Denom == BaseDenom && c.FeeHold != nil {
			b = new(big.Int).Sub(b, c.FeeHold)
			if b.Sign() < 0 {
				b = new(big.Int)
			}
		}
		if a == FeeCollectorAddr && c.Denom == BaseDenom && c.FeeHold != nil {
			b = new(big.Int).Add(b, c.FeeHold)
		}
		return b
	}
	move := func(from, to common.Address, v *big.Int, burn bool) {
		if bal(from).Cmp(v) < 0 {
			e.OK, e.Why = false, "insufficient_balance"
			return
		}
		if v.Sign() != 0 && (burn || from != to) {
			e.Deltas[from] = new(big.Int).Neg(v)
			if burn {
				e.Supply = new(big.Int).Neg(v)
			} else {
				d := e.Deltas[to]
				if d == nil {
					d = new(big.Int)
				}
				e.Deltas[to] = new(big.Int).Add(d, v)
			}
		}
		to2 := to
		if burn {
			to2 = common.Address{}
		}
		e.Log = &logExp{Addr: c.Token, Topics: []common.Hash{topicTransfer, common.BytesToHash(from.Bytes()), common.BytesToHash(to2.Bytes())}, Data: Word(v)}
	}
	spend := func(owner common.Address, v *big.Int) {
		if owner == caller {
			return
		}
		pk := pairKey{owner, caller}
		e.AllowPair = &pk
		cur := m.allowance(c.Token, owner, caller)
		if cur.Cmp(MaxU256) == 0 {
			return // unlimited: never decremented
		}
		if cur.Cmp(v) < 0 {
			e.OK, e.Why = false, "insufficient_allowance"
			return
		}
		e.SetAllow = &struct {
			O, S common.Address
			V    *big.Int
		}{owner, caller, new(big.Int).Sub(cur, v)}
	}
	switch c.Method {
	case "transfer":
		to := c.Addr[0]
		if isZeroAddr(to) {
			e.OK, e.Why = false, "zero_receiver"
			break
		}
		move(caller, to, c.Amount, false)
		e.Ret = Word(1)
	case "transferFrom":
		from, to := c.Addr[0], c.Addr[1]
		if isZeroAddr(from) || isZeroAddr(to) {
			e.OK, e.Why = false, "zero_address"
			break
		}
		spend(from, c.Amount)
		if e.OK {
			move(from, to, c.Amount, false)
		}
		e.Ret = Word(1)
	case "approve":
		sp := c.Addr[0]
		if isZeroAddr(sp) {
			e.OK, e.Why = false, "zero_spender"
			break
		}
		e.SetAllow = &struct {
			O, S common.Address
			V    *big.Int
		}{caller, sp, c.Amount}
		e.Log = &logExp{Addr: c.Token, Topics: []common.Hash{topicApproval, common.BytesToHash(caller.Bytes()), common.BytesToHash(sp.Bytes())}, Data: Word(c.Amount)}
		e.Ret = Word(1)
	case "burn":
		move(caller, common.Address{}, c.Amount, true)
	case "burnFrom":
		from := c.Addr[0]
		if isZeroAddr(from) {
			e.OK, e.Why = false, "zero_address"
			break
		}
		spend(from, c.Amount)
		if e.OK {
			move(from, common.Address{}, c.Amount, true)
		}
	case "balanceOf":
		e.Ret = Word(bal(c.Addr[0]))
	case "totalSupply":
		s := pre.Supply[c.Denom]
		if s == nil {
			s = new(big.Int)
		}
		e.Ret = Word(s)
	case "allowance":
		pk := pairKey{c.Addr[0], c.Addr[1]}
		e.AllowPair = &pk
		e.Ret = Word(m.allowance(c.Token, c.Addr[0], c.Addr[1]))
	}
	if !e.OK {
		e.Log, e.SetAllow, e.Deltas, e.Supply = nil, nil, map[common.Address]*big.Int{}, new(big.Int)
	}
	return e
}

func sameLogExp(l *ethtypes.Log, x *logExp) bool {
	if l.Address != x.Addr || !bytes.Equal(l.Data, x.Data) || len(l.Topics) != len(x.Topics) {
		return false
	}
	for i := range l.Topics {
		if l.Topics[i] != x.Topics[i] {
			return false
		}
	}
	return true
}

var markerTopic = common.BigToHash(big.NewInt(0x77))

// oracleC10 checks one delivered precompile call against the model.
func oracleC10(w *World, rec *BlockRecord, t *TxInfo) {
	if t.EthTx == nil || w.ByHash == nil {
		return
	}
	s := w.ByHash[t.EthTx.Hash()]
	if s == nil || s.Erc20 == nil || t.Obs == nil || t.Obs.After == nil || !t.HasEthEvent {
		return
	}
	m := w.c10()
	r := w.R
	c := s.Erc20
	r.At(rec.Height, t.Pos)
	if !t.HasReceipt {
		return // consensus error / block gas: C05's business
	}
	pre, post := ViewOf(t.Obs.Before), ViewOf(t.Obs.After)
	if c.Plan.Static && erc20Writes(c.Method) {
		return // write under STATICCALL: C12's arm
	}
	c.FeeHold = new(big.Int).Mul(new(big.Int).SetUint64(t.EthTx.Gas()), EffectivePrice(t.EthTx, BaseFeeOf(t.Obs.Before)))
	exp := m.evalErc20(c, pre)
	pairTainted := exp.AllowPair != nil && m.Tainted[*exp.AllowPair]
	cause := "n/a"
	if exp.AllowPair != nil {
		cause = m.pairCause(c.Token, exp.AllowPair.Owner, exp.AllowPair.Spender)
	}
	resp := DecodeDeliveredEth(t.Res)
	var ret []byte
	if resp != nil {
		ret = resp.Ret
	}
	n := len(c.Plan.Hops)
	innerOK := !t.Rc.HasErr
	inner := ret
	if n > 0 {
		flags, in2, ok := UnwrapRouterReturn(ret, n)
		if !ok {
			r.Violate("C10", "harness_router_return", nil, "cannot unwrap %d router envelopes from %x (vm error %q)", n, ret, t.Rc.Err)
			return
		}
		innerOK, inner = flags[n-1], in2
	}
	r.Count("o:erc20_checked")
	if innerOK != exp.OK {
		if pairTainted {
			return
		}
		if exp.AllowPair != nil {
			m.Tainted[*exp.AllowPair] = true
		}
		got := "failed"
		if innerOK {
			got = "succeeded"
		}
		why := exp.Why
		if why == "" {
			why = "none"
		}
		r.Violate("C10", "call_outcome", map[string]string{"method": c.Method, "got": got, "model_failure": why, "cause": cause},
			"%s(%v, %s) on token %s (%s) by caller %s %s; the model says ok=%v (%s); model allowance %s", c.Method, c.Addr, c.Amount, c.Token.Hex(), c.Denom, c.Plan.Caller.Hex(), got, exp.OK, exp.Why, allowStr(m, c, exp))
		m.Off = innerOK // effects we did not predict are now in the ledger: stop modelling this run
		return
	}
	persists := exp.OK && !c.Plan.Reverted && !t.Rc.HasErr
	// return data
	if exp.OK && exp.Ret != nil && !bytes.Equal(inner, exp.Ret) && !pairTainted {
		if exp.AllowPair != nil {
			m.Tainted[*exp.AllowPair] = true
		}
		r.Violate("C10", "return_data", map[string]string{"method": c.Method, "cause": cause}, "%s returned %x, the model says %x", c.Method, inner, exp.Ret)
	}
	// logs of the receipt: surviving marker logs, then exactly the one log of a persisting state-changing call
	var want []*logExp
	if !t.Rc.HasErr {
		for _, a := range c.Plan.MarkerLogs {
			want = append(want, &logExp{Addr: a, Topics: []common.Hash{markerTopic}, Data: nil})
		}
		if persists && exp.Log != nil {
			want = append(want, exp.Log)
		}
	}
	got := t.Rc.Receipt.Logs
	okLogs := len(got) == len(want)
	for i := 0; okLogs && i < len(got); i++ {
		okLogs = sameLogExp(got[i], want[i])
	}
	if !okLogs {
		r.Violate("C10", "receipt_logs", map[string]string{"method": c.Method, "expected": fmt.Sprint(len(want)), "got": fmt.Sprint(len(got))}, "receipt has %d logs, the model expects %d (persisting=%v): %s", len(got), len(want), persists, fmtLogs(got))
	}
	// ledger: every account, every denomination
	base := BaseFeeOf(t.Obs.Before)
	fee := new(big.Int).Mul(new(big.Int).SetUint64(t.Rc.GasUsed), EffectivePrice(t.EthTx, base))
	wantDelta := func(a common.Address, denom string) *big.Int {
		d := new(big.Int)
		if persists && denom == c.Denom {
			if x := exp.Deltas[a]; x != nil {
				d.Add(d, x)
			}
		}
		if denom == BaseDenom {
			if a == c.EOA {
				d.Sub(d, fee)
			}
			if a == FeeCollectorAddr {
				d.Add(d, fee)
			}
		}
		return d
	}
	addrs := map[common.Address]bool{}
	for _, a := range pre.Addresses() {
		addrs[a] = true
	}
	for _, a := range post.Addresses() {
		addrs[a] = true
	}
	denoms := map[string]bool{}
	for _, d := range pre.Denoms() {
		denoms[d] = true
	}
	for _, d := range post.Denoms() {
		denoms[d] = true
	}
	sortedAddrs := make([]common.Address, 0, len(addrs))
	for a := range addrs {
		sortedAddrs = append(sortedAddrs, a)
	}
	sort.Slice(sortedAddrs, func(i, j int) bool { return bytes.Compare(sortedAddrs[i][:], sortedAddrs[j][:]) < 0 })
	for _, d := range sortedKeys(denoms) {
		for _, a := range sortedAddrs {
			gotD := new(big.Int).Sub(post.Balance(a, d), pre.Balance(a, d))
			if w := wantDelta(a, d); gotD.Cmp(w) != 0 {
				role := "other_denom"
				if d == c.Denom {
					role = "token_denom"
				}
				r.Violate("C10", "balance_delta", map[string]string{"method": c.Method, "denom": role, "persisting": fmt.Sprint(persists)},
					"%s: balance of %s in %s changed by %s, the model says %s (amount %s, caller %s)", c.Method, a.Hex(), d, gotD, w, c.Amount, c.Plan.Caller.Hex())
				m.Off = true
				return
			}
		}
		sb, sa := pre.Supply[d], post.Supply[d]
		if sb == nil {
			sb = new(big.Int)
		}
		if sa == nil {
			sa = new(big.Int)
		}
		ws := new(big.Int)
		if persists && d == c.Denom {
			ws.Set(exp.Supply)
		}
		if new(big.Int).Sub(sa, sb).Cmp(ws) != 0 {
			r.Violate("C10", "supply_delta", map[string]string{"method": c.Method}, "%s: supply of %s changed by %s, the model says %s", c.Method, d, new(big.Int).Sub(sa, sb), ws)
		}
	}
	r.Probe("erc20_call_reverted_frame_after_success", exp.OK && c.Plan.Reverted && erc20Writes(c.Method))
	r.Probe("erc20_unlimited_allowance_spent", exp.OK && exp.AllowPair != nil && exp.SetAllow == nil && (c.Method == "transferFrom" || c.Method == "burnFrom") && c.Amount.Sign() > 0)
	r.Probe("erc20_failing_call_checked", !exp.OK)
	r.Probe("erc20_through_contract", n > 0)
	if persists && exp.SetAllow != nil {
		m.setAllowance(c.Token, exp.SetAllow.O, exp.SetAllow.S, exp.SetAllow.V)
	}
}

func allowStr(m *C10Model, c *Erc20Call, e *erc20Expect) string {
	if e.AllowPair == nil {
		return "n/a"
	}
	return m.allowance(c.Token, e.AllowPair.Owner, e.AllowPair.Spender).String()
}

func fmtLogs(ls []*ethtypes.Log) string {
	var sb strings.Builder
	for _, l := range ls {
		fmt.Fprintf(&sb, "[%s %x %x]", l.Address.Hex(), l.Topics, l.Data)
	}
	return sb.String()
}

// c10AfterBlock: the allowance views of every token agree with the model for every pair ever used.
// c10LogsVsBank: whatever an Ethereum tx does (one precompile call or many, through whatever frames, some of them
// reverted), the Transfer logs a token emitted in it and the movements of its bank denomination are the same thing:
// per account, balance delta = sum of logged credits - sum of logged debits; supply delta = minted - burnt.
// (Not for the fee denomination, which also moves as fee and as call value.)
func c10LogsVsBank(w *World, rec *BlockRecord, t *TxInfo) {
	r := w.R
	if t.EthTx == nil || !t.HasEthEvent || t.Obs == nil || t.Obs.After == nil {
		return
	}
	toks, denoms := w.erc20Tokens()
	pre, post := ViewOf(t.Obs.Before), ViewOf(t.Obs.After)
	transferTopic := common.BytesToHash(ethcrypto.Keccak256([]byte("Transfer(address,address,uint256)")))
	for i, tok := range toks {
		denom := denoms[i]
		if denom == BaseDenom {
			continue
		}
		net := map[common.Address]*big.Int{}
		add := func(a common.Address, v *big.Int) {
			if net[a] == nil {
				net[a] = new(big.Int)
			}
			net[a].Add(net[a], v)
		}
		nLogs := 0
		if t.HasReceipt && t.Rc.Receipt != nil {
			for _, l := range t.Rc.Receipt.Logs {
				if l.Address != tok || len(l.Topics) != 3 || l.Topics[0] != transferTopic || len(l.Data) != 32 {
					continue
				}
				nLogs++
				v := new(big.Int).SetBytes(l.Data)
				from, to := common.BytesToAddress(l.Topics[1][12:]), common.BytesToAddress(l.Topics[2][12:])
				if from != (common.Address{}) {
					add(from, new(big.Int).Neg(v))
				}
				if to != (common.Address{}) {
					add(to, v)
				}
			}
		}
		seen := map[common.Address]bool{}
		var addrs []common.Address
		for _, a := range append(pre.Addresses(), post.Addresses()...) {
			if !seen[a] {
				seen[a] = true
				addrs = append(addrs, a)
			}
		}
		for a := range net {
			if !seen[a] {
				seen[a] = true
				addrs = append(addrs, a)
			}
		}
		sort.Slice(addrs, func(i, j int) bool { return bytes.Compare(addrs[i][:], addrs[j][:]) < 0 })
		r.At(rec.Height, t.Pos)
		// staking calls in the same tx pay out pending rewards in every denomination the rewards pool holds (fees paid in
		// this token end up there): the distribution module moved this denomination, the token contract did not
		distr := common.BytesToAddress(authtypes.NewModuleAddress("distribution"))
		if post.Balance(distr, denom).Cmp(pre.Balance(distr, denom)) != 0 {
			r.Count("o:erc20_logs_vs_bank_skipped_rewards_paid_in_token")
			continue
		}
		r.Count("o:erc20_logs_vs_bank_checked")
		r.Probe("erc20_tx_with_several_transfer_logs", nLogs > 1)
		for _, a := range addrs {
			if pre.Acc[a] != nil && post.Acc[a] == nil {
				// the account was destroyed in this tx (self-destruct, empty-account sweep): destruction burns whatever it
				// held, in every denomination, without the token having a say (C15's rule, not a token movement)
				continue
			}
			delta := new(big.Int).Sub(post.Balance(a, denom), pre.Balance(a, denom))
			want := net[a]
			if want == nil {
				want = new(big.Int)
			}
			if delta.Cmp(want) != 0 {
				how := "bank_moved_without_log"
				if want.Sign() != 0 {
					how = "log_without_matching_bank_move"
				}
				r.Violate("C10", "transfer_logs_vs_bank", map[string]string{"how": how}, "token %s (%s): balance of %s changed by %s in the tx, its Transfer logs add up to %s (%d Transfer logs)", tok.Hex(), denom, a.Hex(), delta, want, nLogs)
				break
			}
		}
	}
}

func c10AfterBlock(w *World, rec *BlockRecord, txs []*TxInfo) {
	for _, t := range txs {
		if !w.c10().Off {
			oracleC10(w, rec, t)
			c10LogsVsBank(w, rec, t)
		}
	}
	m := w.c10()
	if m.Off || w.C.Halted {
		return
	}
	r := w.R
	r.At(rec.Height, -1)
	toks, _ := w.erc20Tokens()
	var pairs []pairKey
	for pk := range m.PairTokens {
		pairs = append(pairs, pk)
	}
	sort.Slice(pairs, func(i, j int) bool {
		if c := bytes.Compare(pairs[i].Owner[:], pairs[j].Owner[:]); c != 0 {
			return c < 0
		}
		return bytes.Compare(pairs[i].Spender[:], pairs[j].Spender[:]) < 0
	})
	for _, tok := range toks {
		for _, pk := range pairs {
			if m.Tainted[pk] {
				continue
			}
			got, ok := w.viewCall(tok, CallData(erc20Sigs["allowance"], pk.Owner, pk.Spender))
			if !ok {
				continue
			}
			want := Word(m.allowance(tok, pk.Owner, pk.Spender))
			r.Count("o:erc20_allowance_view_checked")
			if !bytes.Equal(got, want) {
				m.Tainted[pk] = true
				r.Violate("C10", "allowance_view", map[string]string{"cause": m.pairCause(tok, pk.Owner, pk.Spender)},
					"allowance(%s, %s) on token %s reports %x, the model (approvals and spends on this token) says %x", pk.Owner.Hex(), pk.Spender.Hex(), tok.Hex(), got, want)
			}
		}
	}
}

// viewCall runs eth_call against the latest committed state and returns the return data of a successful call.
func (w *World) viewCall(to common.Address, data []byte) ([]byte, bool) {
	from := w.wallet(0).Addr
	args := map[string]interface{}{"from": from.Hex(), "to": to.Hex(), "input": "0x" + hex.EncodeToString(data), "gas": "0x2dc6c0"}
	bz, _ := json.Marshal(args)
	res, ok := w.grpcQuery("/ethermint.evm.v1.Query/EthCall", &evmtypes.EthCallRequest{Args: bz, GasCap: 25_000_000}, 0)
	if !ok || res.Code != 0 {
		return nil, false
	}
	a := decodeEthAnswer(res)
	if a.Err != "" || a.VmError != "" {
		return nil, false
	}
	return a.Ret, true
}

// ---- Cosmos messages of the custom modules ("msg" op) ------------------------------------------------

func opMsg(w *World, op *Op) {
	wl := w.wallet(op.W)
	var msgs []sdk.Msg
	switch op.Mut {
	case "cpc_erc20":
		dec := uint32(6)
		if op.Typ != 0 {
			dec = uint32(op.Typ)
		}
		name, sym := "Tok"+op.Denom, strings.ToUpper(op.Denom)+"x"
		if op.Note != "" {
			name = op.Note
		}
		if op.Tip != "" {
			sym = op.Tip
		}
		msgs = []sdk.Msg{&cpctypes.MsgDeployErc20ContractRequest{Authority: wl.Bech32(), Name: name, Symbol: sym, Decimals: dec, MinDenom: op.Denom}}
	case "cpc_staking":
		msgs = []sdk.Msg{&cpctypes.MsgDeployStakingContractRequest{Authority: wl.Bech32(), Symbol: "STK", Decimals: 18}}
	default:
		if b, ok := msgBuilders[op.Mut]; ok {
			msgs = b(w, op)
		} else {
			panic("harness: unknown msg recipe " + op.Mut)
		}
	}
	if len(msgs) == 0 {
		return
	}
	base := w.BaseFee()
	price := relNum(op.Price, base, "b")
	if op.Price == "" {
		price = new(big.Int).Add(base, big.NewInt(1))
	}
	gas := relNum(op.Gas, big.NewInt(600000), "i").Uint64()
	fee := new(big.Int).Mul(price, new(big.Int).SetUint64(gas))
	if op.Val != "" && op.Mut == "stk_native" {
		fee = relNum(op.Val, new(big.Int), "_") // the twin declares exactly the fee its counterpart paid
	}
	_, num, _ := w.committedSeq(wl.Acc())
	cur := w.nextNonce(op.W, wl)
	c := &CosmosTx{Msgs: msgs, Gas: gas, Fee: sdk.NewCoins(sdk.NewCoin(BaseDenom, sdkmath.NewIntFromBigInt(fee))), AccNum: num, Seq: cur}
	if fee.Sign() == 0 {
		c.Fee = sdk.Coins{}
	}
	bz := BuildCosmosTx(wl, c)
	w.next[op.W] = cur + 1
	w.R.Count("o:msg_" + op.Mut)
	w.Submit(&Sent{Bytes: bz, OpIdx: w.opIdx, Wallet: op.W, Meta: map[string]string{"msg": op.Mut}}, op.Via)
}

var msgBuilders = map[string]func(w *World, op *Op) []sdk.Msg{}

// ---- generator ------------------------------------------------------------------------------------------

func pcGenesis(rng *rand.Rand) GenesisSpec {
	g, _ := mixedGenesis(rng)
	g.Validators = 1 + rng.IntN(3)
	g.Wallets = 5 + rng.IntN(3)
	g.ExtraDenoms = []string{"utwo", "uthree"}
	g.Erc20Native, g.StakingCpc = true, true
	g.CpcWhitelist = []int{0}
	g.MaxGas = pick(rng, int64(40_000_000), 40_000_000, -1)
	g.BaseFee = pick(rng, "1000000000", "7", "0")
	g.MinGasPrice = pick(rng, "0", "0", "0.5")
	return g
}

func genErc20Op(rng *rand.Rand, g *GenesisSpec, nTok int, shareAcrossTokens bool) Op {
	if rng.IntN(10) < 7 {
		return genErc20PairOp(rng, g, nTok, shareAcrossTokens)
	}
	return genErc20AnyOp(rng, g, nTok, shareAcrossTokens)
}

// genErc20PairOp keeps approvals and spends aligned on a few designated (owner, spender) pairs so that
// allowance arithmetic (exact decrement, unlimited, exhaustion, re-approval) is actually exercised.
func genErc20PairOp(rng *rand.Rand, g *GenesisSpec, nTok int, shareAcrossTokens bool) Op {
	o := rng.IntN(g.Wallets)
	tok := o % nTok
	if shareAcrossTokens {
		tok = rng.IntN(nTok)
	}
	owner := fmt.Sprintf("w%d", o)
	viaRouter := rng.IntN(3) == 0
	spW, spender, chain := (o+1)%g.Wallets, fmt.Sprintf("w%d", (o+1)%g.Wallets), ""
	if viaRouter {
		spW, spender, chain = rng.IntN(g.Wallets), "c:router0", pick(rng, "c", "d", "cc", "c+", "c!")
	}
	amount := pick(rng, "1", "7", "1000", "999", "bal/2", "allow", "allow+1", "bal+1", "0", "max")
	switch k := rng.IntN(100); {
	case k < 35:
		return Op{K: "erc20", W: o, Ref: tok, Mut: "approve", A: []string{spender, pick(rng, "max", "max", "1000", "5000000", "1", "0", "bal")}, Chain: pick(rng, "", "", "", "c!")}
	case k < 70:
		return Op{K: "erc20", W: spW, Ref: tok, Mut: "transferFrom", A: []string{owner, pick(rng, spender, fmt.Sprintf("w%d", rng.IntN(g.Wallets)), "fresh1"), amount}, Chain: chain}
	case k < 88:
		return Op{K: "erc20", W: spW, Ref: tok, Mut: "burnFrom", A: []string{owner, amount}, Chain: chain}
	default:
		return Op{K: "erc20", W: rng.IntN(g.Wallets), Ref: tok, Mut: "allowance", A: []string{owner, spender}, Chain: pick(rng, "", "s", "c")}
	}
}

func genErc20AnyOp(rng *rand.Rand, g *GenesisSpec, nTok int, shareAcrossTokens bool) Op {
	w := rng.IntN(g.Wallets)
	someone := func() string {
		return pick(rng, fmt.Sprintf("w%d", rng.IntN(g.Wallets)), fmt.Sprintf("w%d", rng.IntN(g.Wallets)), "c:router0", "c:router1", "caller", "zero", "mod:fee_collector", "mod:cpc", "erc20:1", fmt.Sprintf("fresh%d", rng.IntN(3)))
	}
	chain := pick(rng, "", "", "", "c", "d", "cc", "c.c", "c.d", "d.c", "c!", "c.c!", "c+.d", "c+.c+!", "s", "c.s")
	op := Op{K: "erc20", W: w, Ref: rng.IntN(nTok), Chain: chain}
	if !shareAcrossTokens {
		// spender sets of different tokens stay disjoint: the wallet index selects the token
		op.Ref = w % nTok
	}
	amount := func() string {
		return pick(rng, "0", "1", "1000", "bal", "bal+1", "bal/2", "allow", "allow+1", "max", "123456789")
	}
	switch k := rng.IntN(100); {
	case k < 30:
		op.Mut, op.A = "transfer", []string{someone(), amount()}
	case k < 40:
		op.Mut, op.A = "transferFrom", []string{pick(rng, fmt.Sprintf("w%d", rng.IntN(g.Wallets)), "c:router0", "caller"), someone(), amount()}
	case k < 50:
		op.Mut, op.A = "approve", []string{pick(rng, fmt.Sprintf("w%d", rng.IntN(g.Wallets)), "c:router0", "c:router1", "zero"), pick(rng, "0", "1000", "max", "bal", "5000000", "1")}
	case k < 62:
		op.Mut, op.A = "burn", []string{amount()}
	case k < 70:
		op.Mut, op.A = "burnFrom", []string{pick(rng, fmt.Sprintf("w%d", rng.IntN(g.Wallets)), "c:router0", "caller", "zero"), amount()}
	case k < 80:
		op.Mut, op.A = "balanceOf", []string{someone()}
	case k < 86:
		op.Mut = "totalSupply"
	case k < 94:
		op.Mut, op.A = "allowance", []string{fmt.Sprintf("w%d", rng.IntN(g.Wallets)), pick(rng, fmt.Sprintf("w%d", rng.IntN(g.Wallets)), "c:router0")}
	default:
		op.Mut = pick(rng, "name", "symbol", "decimals")
	}
	if !erc20Writes(op.Mut) && strings.Contains(chain, "!") {
		op.Chain = strings.ReplaceAll(chain, "!", "")
	}
	if erc20Writes(op.Mut) && strings.Contains(chain, "s") {
		op.Chain = "c" // writes under STATICCALL belong to C12
	}
	return op
}

func genC10(rng *rand.Rand, seed uint64, tier string) *Script {
	g := pcGenesis(rng)
	// one holder is a vesting account most of whose coins are still locked: a balance is a balance, spendable or not
	g.Vesting = []GenVesting{{Kind: pick(rng, "delayed", "continuous"), Wallet: 0, StartOff: -1000, EndOff: 86400 * 400, Amount: "1000000000000000000", Extra: "30000000000000000", Denom2: "utwo"}}
	s := &Script{Prop: "C10", Seed: seed, Gen: g, Extra: map[string]string{}}
	nTok := 1 + rng.IntN(3)
	share := rng.IntN(4) == 0
	ops := []Op{{K: "block", Dt: 5}}
	if nTok >= 2 {
		ops = append(ops, Op{K: "msg", W: 0, Mut: "cpc_erc20", Denom: "utwo"})
	}
	if nTok >= 3 {
		ops = append(ops, Op{K: "msg", W: 0, Mut: "cpc_erc20", Denom: "uthree"})
	}
	ops = append(ops, Op{K: "block", Dt: 5})
	// routers hold tokens too
	for i := 0; i < 2; i++ {
		ops = append(ops, Op{K: "bank", W: 1, To: fmt.Sprintf("c:router%d", i), Val: "5000000", Denom: pick(rng, BaseDenom, "utwo"), Price: "b+1", Gas: "200000"})
	}
	// the orchestrator of multi-call transactions and its routers hold every token
	for _, c := range []string{"c:seq", "c:router0", "c:router1", "c:router2"} {
		for _, d := range []string{BaseDenom, "utwo", "uthree"} {
			ops = append(ops, Op{K: "bank", W: 2, To: c, Val: "900000000", Denom: d, Price: "b+1", Gas: "200000"})
		}
	}
	ops = append(ops, Op{K: "block", Dt: 5})
	nb := 4 + rng.IntN(8)
	for b := 0; b < nb; b++ {
		for i, n := 0, 1+rng.IntN(6); i < n; i++ {
			switch k := rng.IntN(23); {
			case k == 22 || k == 21 && rng.IntN(2) == 0: // a holder of nothing but tokens, then merely touched by an EVM message
				f := fmt.Sprintf("fresh%d", rng.IntN(3))
				if rng.IntN(2) == 0 {
					ops = append(ops, Op{K: "erc20", W: rng.IntN(g.Wallets), Mut: "transfer", Ref: rng.IntN(nTok), A: []string{f, pick(rng, "5", "40")}})
				} else {
					ops = append(ops, Op{K: "eth", W: rng.IntN(g.Wallets), To: f, Val: "0", Gas: pick(rng, "i", "i+1000"), Price: "b+1", Tip: "1"})
				}
			case k == 20 && rng.IntN(2) == 0: // views of, and transfers to, the vesting holder
				if rng.IntN(2) == 0 {
					ops = append(ops, Op{K: "erc20", W: rng.IntN(g.Wallets), Mut: "balanceOf", Ref: rng.IntN(nTok), A: []string{"vest0"}})
				} else {
					ops = append(ops, Op{K: "erc20", W: rng.IntN(g.Wallets), Mut: "transfer", Ref: rng.IntN(nTok), A: []string{"vest0", pick(rng, "100", "60")}})
				}
			case k >= 20: // several precompile calls in one tx, through frames of which some revert
				wop := genWitness(rng, &g)
				wop.To = fmt.Sprintf("erc20:%d", rng.IntN(nTok))
				ops = append(ops, wop)
			case k < 16:
				ops = append(ops, genErc20Op(rng, &g, nTok, share))
			case k < 18:
				ops = append(ops, Op{K: "bank", W: rng.IntN(g.Wallets), To: fmt.Sprintf("w%d", rng.IntN(g.Wallets)), Val: pick(rng, "1", "77777"), Denom: pick(rng, BaseDenom, "utwo", "uthree"), Price: "b+1", Gas: "200000"})
			case k < 19:
				ops = append(ops, Op{K: "msg", W: pick(rng, 0, 1), Mut: "cpc_erc20", Denom: pick(rng, "utwo", "uthree", BaseDenom, "unone")})
			default:
				ops = append(ops, genMixedTx(rng, &g))
			}
		}
		ops = append(ops, Op{K: "block", Dt: pick(rng, 1, 5, 5), Prop: rng.IntN(3), Byz: rng.IntN(6) == 0})
	}
	ops = append(ops, Op{K: "block", Dt: 5})
	s.Ops = ops
	return s
}

func runPc(hooks ...func(w *World, rec *BlockRecord, txs []*TxInfo)) func(rt *Runtime, r *RunCtx, s *Script) {
	return func(rt *Runtime, r *RunCtx, s *Script) {
		rt.Bubble(s.WallOffsetS, func() {
			w := NewWorld(r, s)
			for i, name := range TemplateNames {
				w.Labels[name] = GenesisContractAddr(i)
			}
			w.OnBlock = append(w.OnBlock, hooks...)
			checkInit(r, w.C)
			for i := range s.Ops {
				w.Exec(i, &s.Ops[i])
			}
		})
	}
}

func init() {
	opHandlers["erc20"] = opErc20
	opHandlers["msg"] = opMsg
	Arms["C10"] = &Arm{Gen: genC10, Run: runPc(c10AfterBlock)}
}
