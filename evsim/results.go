package evsim

import (
	"encoding/hex"
	"math/big"
	"strconv"
	"strings"

	evmtypes "github.com/EscanBE/evermint/v12/x/evm/types"
	abci "github.com/cometbft/cometbft/abci/types"
	sdk "github.com/cosmos/cosmos-sdk/types"
	"github.com/ethereum/go-ethereum/common"
	ethtypes "github.com/ethereum/go-ethereum/core/types"
)

// TxInfo is the harness's own reading of one transaction of a block and of its consensus result.
// It is derived from the raw bytes and the ResponseFinalizeBlock only (not from rpc/types).
type TxInfo struct {
	Pos     int
	Bytes   []byte
	Res     *abci.ExecTxResult
	Decoded bool
	NumMsgs int
	// Ethereum shape
	IsEthShape bool // exactly one message and it is MsgEthereumTx
	EthMsg     *evmtypes.MsgEthereumTx
	EthTx      *ethtypes.Transaction // nil when the inner payload does not decode
	From       common.Address        // declared sender
	// events
	HasEthEvent bool
	EvTxIndex   int64
	EvHash      string
	HasReceipt  bool
	Rc          ReceiptEv
	Obs         *TxObs
}

// ReceiptEv is the decoded tx_receipt event.
type ReceiptEv struct {
	Marshalled  []byte
	Receipt     *ethtypes.Receipt // consensus fields decoded from Marshalled
	EvmTxHash   string
	Contract    string
	GasUsed     uint64
	EffPrice    *big.Int
	BlockNumber int64
	TxIdx       int64
	HasLogIdx   bool
	LogIdx      int64
	HasErr      bool
	Err         string
	TmHash      string
	ParseErr    string
}

func attr(e abci.Event, key string) (string, bool) {
	for _, a := range e.Attributes {
		if a.Key == key {
			return a.Value, true
		}
	}
	return "", false
}

// ParseBlock builds TxInfo for every tx of a decided block and attaches ante observations.
func ParseBlock(rec *BlockRecord) []*TxInfo {
	dec := EncodingConfig().TxConfig.TxDecoder()
	out := make([]*TxInfo, len(rec.Req.Txs))
	oi := 0
	for i, bz := range rec.Req.Txs {
		ti := &TxInfo{Pos: i, Bytes: bz}
		if rec.Res != nil && i < len(rec.Res.TxResults) {
			ti.Res = rec.Res.TxResults[i]
		}
		if tx, err := dec(bz); err == nil {
			ti.Decoded = true
			msgs := tx.GetMsgs()
			ti.NumMsgs = len(msgs)
			if len(msgs) == 1 {
				if m, ok := msgs[0].(*evmtypes.MsgEthereumTx); ok {
					ti.IsEthShape = true
					ti.EthMsg = m
					et := &ethtypes.Transaction{}
					if err := et.UnmarshalBinary(m.MarshalledTx); err == nil {
						ti.EthTx = et
					}
					if a, err := sdk.AccAddressFromBech32(m.From); err == nil && len(a) == 20 {
						ti.From = common.BytesToAddress(a)
					}
				}
			}
		}
		if ti.Res != nil {
			for _, e := range ti.Res.Events {
				switch e.Type {
				case evmtypes.EventTypeEthereumTx:
					// the ante emits {ethereumTxHash, txIndex}; the SDK message event has the same type name
					if h, ok := attr(e, evmtypes.AttributeKeyEthereumTxHash); ok {
						ti.HasEthEvent = true
						ti.EvHash = h
						if s, ok := attr(e, evmtypes.AttributeKeyTxIndex); ok {
							ti.EvTxIndex, _ = strconv.ParseInt(s, 10, 64)
						} else {
							ti.EvTxIndex = -1
						}
					}
				case evmtypes.EventTypeTxReceipt:
					ti.HasReceipt = true
					ti.Rc = parseReceiptEvent(e)
				}
			}
		}
		if rec.Obs != nil && oi < len(rec.Obs.Txs) && string(rec.Obs.Txs[oi].TxBytes) == string(bz) {
			ti.Obs = rec.Obs.Txs[oi]
			oi++
		}
		out[i] = ti
	}
	return out
}

func parseReceiptEvent(e abci.Event) ReceiptEv {
	var r ReceiptEv
	r.TxIdx, r.LogIdx, r.BlockNumber = -1, -1, -1
	for _, a := range e.Attributes {
		switch a.Key {
		case evmtypes.AttributeKeyReceiptMarshalled:
			bz, err := hex.DecodeString(strings.TrimPrefix(a.Value, "0x"))
			if err != nil {
				r.ParseErr = "marshalled: " + err.Error()
				continue
			}
			r.Marshalled = bz
			rc := &ethtypes.Receipt{}
			if err := rc.UnmarshalBinary(bz); err != nil {
				r.ParseErr = "receipt: " + err.Error()
				continue
			}
			r.Receipt = rc
		case evmtypes.AttributeKeyReceiptEvmTxHash:
			r.EvmTxHash = a.Value
		case evmtypes.AttributeKeyReceiptContractAddress:
			r.Contract = a.Value
		case evmtypes.AttributeKeyReceiptGasUsed:
			r.GasUsed, _ = strconv.ParseUint(a.Value, 10, 64)
		case evmtypes.AttributeKeyReceiptEffectiveGasPrice:
			r.EffPrice, _ = new(big.Int).SetString(a.Value, 10)
		case evmtypes.AttributeKeyReceiptBlockNumber:
			r.BlockNumber, _ = strconv.ParseInt(a.Value, 10, 64)
		case evmtypes.AttributeKeyReceiptTxIndex:
			r.TxIdx, _ = strconv.ParseInt(a.Value, 10, 64)
		case evmtypes.AttributeKeyReceiptStartLogIndex:
			r.HasLogIdx = true
			r.LogIdx, _ = strconv.ParseInt(a.Value, 10, 64)
		case evmtypes.AttributeKeyReceiptVmError:
			r.HasErr = true
			r.Err = a.Value
		case evmtypes.AttributeKeyReceiptCometBFTTxHash:
			r.TmHash = a.Value
		}
	}
	return r
}

// EffectivePrice is the harness's own min(tip+base, cap) / gasPrice.
func EffectivePrice(tx *ethtypes.Transaction, baseFee *big.Int) *big.Int {
	if tx.Type() == ethtypes.DynamicFeeTxType {
		p := new(big.Int).Add(tx.GasTipCap(), baseFee)
		if p.Cmp(tx.GasFeeCap()) > 0 {
			p.Set(tx.GasFeeCap())
		}
		return p
	}
	return new(big.Int).Set(tx.GasPrice())
}

// BaseFeeOf reads the fee-market base fee from a dump (params are stored as one proto record).
func BaseFeeOf(d *Dump) *big.Int {
	return feeParamsOf(d).BaseFee.BigInt()
}
