package evsim

import (
	"bytes"
	"fmt"
	"math/big"
	"sort"

	evmtypes "github.com/EscanBE/evermint/v12/x/evm/types"
	sdk "github.com/cosmos/cosmos-sdk/types"
	authtypes "github.com/cosmos/cosmos-sdk/x/auth/types"
	vestexported "github.com/cosmos/cosmos-sdk/x/auth/vesting/exported"
	banktypes "github.com/cosmos/cosmos-sdk/x/bank/types"
	"github.com/ethereum/go-ethereum/common"
)

// AccInfo is the decoded auth record of one address.
type AccInfo struct {
	Addr     common.Address
	Type     string // concrete Go type name
	Seq      uint64
	AccNum   uint64
	Raw      []byte
	Module   string // module name when a module account
	Vesting  vestexported.VestingAccount
	EndTime  int64
	IsModule bool
}

// View is the semantic reading of a Dump (bank, auth, evm).
type View struct {
	Supply   map[string]*big.Int
	Bal      map[common.Address]map[string]*big.Int
	Acc      map[common.Address]*AccInfo
	CodeHash map[common.Address][]byte
	Storage  map[common.Address]map[common.Hash][]byte
	Other    map[string]int // bank/auth keys with an unknown layout (count per prefix) — must stay empty for long addrs
}

var viewCache = map[*Dump]*View{}

// ViewOf decodes (once) the bank / auth / evm sections of a dump.
func ViewOf(d *Dump) *View {
	if v, ok := viewCache[d]; ok {
		return v
	}
	v := buildView(d)
	if len(viewCache) > 4096 {
		viewCache = map[*Dump]*View{}
	}
	viewCache[d] = v
	return v
}

func buildView(d *Dump) *View {
	v := &View{
		Supply: map[string]*big.Int{}, Bal: map[common.Address]map[string]*big.Int{}, Acc: map[common.Address]*AccInfo{},
		CodeHash: map[common.Address][]byte{}, Storage: map[common.Address]map[common.Hash][]byte{}, Other: map[string]int{},
	}
	cdc := EncodingConfig().Codec
	supplyPrefix := banktypes.SupplyKey.Bytes()
	balPrefix := banktypes.BalancesPrefix.Bytes()
	for _, kv := range d.Stores["bank"] {
		switch {
		case bytes.HasPrefix(kv.K, supplyPrefix):
			amt, ok := new(big.Int).SetString(string(kv.V), 10)
			if !ok {
				panic(fmt.Sprintf("harness: cannot parse supply %x", kv.V))
			}
			v.Supply[string(kv.K[len(supplyPrefix):])] = amt
		case bytes.HasPrefix(kv.K, balPrefix):
			rest := kv.K[len(balPrefix):]
			if len(rest) < 1 || int(rest[0])+1 > len(rest) {
				panic("harness: bad balance key")
			}
			al := int(rest[0])
			addrB := rest[1 : 1+al]
			denom := string(rest[1+al:])
			amt, ok := new(big.Int).SetString(string(kv.V), 10)
			if !ok {
				panic(fmt.Sprintf("harness: cannot parse balance %x", kv.V))
			}
			if al != 20 {
				v.Other["bal-long-addr"]++
				continue
			}
			a := common.BytesToAddress(addrB)
			if v.Bal[a] == nil {
				v.Bal[a] = map[string]*big.Int{}
			}
			v.Bal[a][denom] = amt
		}
	}
	accPrefix := authtypes.AddressStoreKeyPrefix.Bytes()
	for _, kv := range d.Stores["acc"] {
		if !bytes.HasPrefix(kv.K, accPrefix) || len(kv.K) != len(accPrefix)+20 {
			continue
		}
		var acc sdk.AccountI
		if err := cdc.UnmarshalInterface(kv.V, &acc); err != nil {
			panic(fmt.Sprintf("harness: cannot decode account %x: %v", kv.K, err))
		}
		a := common.BytesToAddress(kv.K[len(accPrefix):])
		ai := &AccInfo{Addr: a, Type: fmt.Sprintf("%T", acc), Seq: acc.GetSequence(), AccNum: acc.GetAccountNumber(), Raw: kv.V}
		if m, ok := acc.(sdk.ModuleAccountI); ok {
			ai.IsModule = true
			ai.Module = m.GetName()
		}
		if va, ok := acc.(vestexported.VestingAccount); ok {
			ai.Vesting = va
			ai.EndTime = va.GetEndTime()
		}
		v.Acc[a] = ai
	}
	for _, kv := range d.Stores["evm"] {
		switch {
		case bytes.HasPrefix(kv.K, evmtypes.KeyPrefixCodeHash) && len(kv.K) == 21:
			v.CodeHash[common.BytesToAddress(kv.K[1:])] = kv.V
		case bytes.HasPrefix(kv.K, evmtypes.KeyPrefixStorage) && len(kv.K) == 53:
			a := common.BytesToAddress(kv.K[1:21])
			if v.Storage[a] == nil {
				v.Storage[a] = map[common.Hash][]byte{}
			}
			v.Storage[a][common.BytesToHash(kv.K[21:])] = kv.V
		}
	}
	return v
}

// Balance returns the balance of addr in denom (0 when absent).
func (v *View) Balance(a common.Address, denom string) *big.Int {
	if m := v.Bal[a]; m != nil {
		if x := m[denom]; x != nil {
			return x
		}
	}
	return new(big.Int)
}

// Denoms lists every denom that has a supply or a balance entry.
func (v *View) Denoms() []string {
	set := map[string]bool{}
	for d := range v.Supply {
		set[d] = true
	}
	for _, m := range v.Bal {
		for d := range m {
			set[d] = true
		}
	}
	out := make([]string, 0, len(set))
	for d := range set {
		out = append(out, d)
	}
	sort.Strings(out)
	return out
}

// SumBalances sums all account balances of denom.
func (v *View) SumBalances(denom string) *big.Int {
	s := new(big.Int)
	for _, m := range v.Bal {
		if x := m[denom]; x != nil {
			s.Add(s, x)
		}
	}
	return s
}

// Addresses returns all addresses with an account record or a balance, sorted.
func (v *View) Addresses() []common.Address {
	set := map[common.Address]bool{}
	for a := range v.Acc {
		set[a] = true
	}
	for a := range v.Bal {
		set[a] = true
	}
	for a := range v.CodeHash {
		set[a] = true
	}
	for a := range v.Storage {
		set[a] = true
	}
	out := make([]common.Address, 0, len(set))
	for a := range set {
		out = append(out, a)
	}
	sort.Slice(out, func(i, j int) bool { return bytes.Compare(out[i][:], out[j][:]) < 0 })
	return out
}

func moduleAddr(name string) common.Address {
	return common.BytesToAddress(authtypes.NewModuleAddress(name))
}

var (
	EvmModuleAddr    = moduleAddr(evmtypes.ModuleName)
	FeeCollectorAddr = moduleAddr(authtypes.FeeCollectorName)
)
