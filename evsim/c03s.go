package evsim

import (
	"bytes"
	"fmt"
	"math/big"
	"math/rand/v2"
	"strconv"
	"strings"

	evmvm "github.com/EscanBE/evermint/v12/x/evm/vm"
	"github.com/ethereum/go-ethereum/common"
	"github.com/ethereum/go-ethereum/core/state"
	ethtypes "github.com/ethereum/go-ethereum/core/types"
	ethcrypto "github.com/ethereum/go-ethereum/crypto"
)

// ---- C03, StateDB level ------------------------------------------------------------------------------------
//
// The property quantifies over "all sequences of state operations interleaved with arbitrarily nested snapshot /
// revert-to-snapshot calls ... followed by commit or discard". The "sdb" op runs such a sequence, generated as part of
// the script, against two implementations side by side:
//
//   - the application's context-based StateDB (x/evm/vm), created over a cache branch of the node's committed state at
//     whatever height the history has reached (so the pre-state is a reachable one: funded wallets, contracts with
//     code and storage, accounts created by earlier transactions), and
//   - go-ethereum's journalled state.StateDB over a mirror of the same state (the reference for what a revert undoes).
//
// After every operation every observable of every address of a small universe is compared (balance, nonce, code,
// storage, committed storage, transient storage, self-destruct mark, emptiness, access list, refund counter, logs);
// at the end the sequence is committed on both sides (or discarded) and the resulting account states are compared.
// Snapshots are used the way the EVM uses them: properly nested, each reverted at most once. Nothing is written to
// the chain: the branch is dropped.

type sdbPair struct {
	w    *World
	real evmvm.CStateDB
	ref  *state.StateDB
	uni  []common.Address
	open [][2]int // open snapshots: (real id, ref id)
	// transient storage (EIP-1153) does not exist in the linked go-ethereum: a map with one copy per open snapshot
	tcur  map[string]common.Hash
	tsnap []map[string]common.Hash
	nRev  int
	nlog  int
	step int
	tok  string
	bad  bool
}

var sdbTxHash = common.BytesToHash(ethcrypto.Keccak256([]byte("evsim/sdb")))

func (p *sdbPair) differ(what string, format string, args ...interface{}) {
	if p.bad {
		return
	}
	p.bad = true
	kind := strings.SplitN(p.tok, ":", 2)[0]
	p.w.R.Violate("C03", "statedb_differs_from_journal_reference", map[string]string{"observable": what, "after_snapshot_revert": fmt.Sprint(p.reverted())},
		"after operation %d (%s, kind %s): "+format, append([]interface{}{p.step, p.tok, kind}, args...)...)
}

func (p *sdbPair) reverted() bool { return p.nRev > 0 }

// compare every observable of the universe
func (p *sdbPair) compare() {
	for _, a := range p.uni {
		if x, y := p.real.GetBalance(a), p.ref.GetBalance(a); x.Cmp(y) != 0 {
			p.differ("balance", "balance of %s is %s, reference %s", a.Hex(), x, y)
		}
		if x, y := p.real.GetNonce(a), p.ref.GetNonce(a); x != y {
			p.differ("nonce", "nonce of %s is %d, reference %d", a.Hex(), x, y)
		}
		if x, y := p.real.GetCode(a), p.ref.GetCode(a); !bytes.Equal(x, y) {
			p.differ("code", "code of %s has %d bytes, reference %d", a.Hex(), len(x), len(y))
		}
		if x, y := p.real.GetCodeSize(a), p.ref.GetCodeSize(a); x != y {
			p.differ("code", "code size of %s is %d, reference %d", a.Hex(), x, y)
		}
		if x, y := p.real.HasSuicided(a), p.ref.HasSuicided(a); x != y {
			p.differ("self_destruct_mark", "HasSuicided(%s) = %v, reference %v", a.Hex(), x, y)
		}
		if x, y := p.real.Empty(a), p.ref.Empty(a); x != y {
			p.differ("empty", "Empty(%s) = %v, reference %v", a.Hex(), x, y)
		}
		if x, y := p.real.AddressInAccessList(a), p.ref.AddressInAccessList(a); x != y {
			p.differ("access_list", "AddressInAccessList(%s) = %v, reference %v", a.Hex(), x, y)
		}
		for s := 0; s < 4; s++ {
			k := common.BigToHash(big.NewInt(int64(s)))
			if x, y := p.real.GetState(a, k), p.ref.GetState(a, k); x != y {
				p.differ("storage", "storage %s[%d] = %s, reference %s", a.Hex(), s, x.Hex(), y.Hex())
			}
			if x, y := p.real.GetCommittedState(a, k), p.ref.GetCommittedState(a, k); x != y {
				p.differ("committed_storage", "committed storage %s[%d] = %s, reference %s", a.Hex(), s, x.Hex(), y.Hex())
			}
			if x, y := p.real.GetTransientState(a, k), p.tcur[a.Hex()+k.Hex()]; x != y {
				p.differ("transient_storage", "transient storage %s[%d] = %s, reference %s", a.Hex(), s, x.Hex(), y.Hex())
			}
			_, xs := p.real.SlotInAccessList(a, k)
			_, ys := p.ref.SlotInAccessList(a, k)
			if xs != ys {
				p.differ("access_list", "SlotInAccessList(%s, %d) = %v, reference %v", a.Hex(), s, xs, ys)
			}
		}
	}
	if x, y := p.real.GetRefund(), p.ref.GetRefund(); x != y {
		p.differ("refund_counter", "refund counter %d, reference %d", x, y)
	}
	xl, yl := p.real.GetTransactionLogs(), p.ref.GetLogs(sdbTxHash, common.Hash{})
	if len(xl) != len(yl) {
		p.differ("logs", "%d logs, reference %d", len(xl), len(yl))
	} else {
		for i := range xl {
			if xl[i].Address != yl[i].Address || !bytes.Equal(xl[i].Data, yl[i].Data) || len(xl[i].Topics) != len(yl[i].Topics) {
				p.differ("logs", "log %d differs from the reference", i)
			}
		}
	}
}

// opSdb: K=sdb, A = operation tokens, Ref = 0 commit / 1 discard at the end.
func opSdb(w *World, op *Op) {
	if w.C.Halted {
		return
	}
	r := w.R
	ctx, _ := w.ctx().CacheContext()
	dump := w.C.Node.DumpCtx(ctx)
	ref, _, err := mirrorState(dump)
	if err != nil {
		r.Cross["c03s:reference_unavailable"]++
		return
	}
	ref.Prepare(sdbTxHash, 0)
	app := w.C.Node.App
	coinbase := w.G.Validators[0].Operator.Addr
	p := &sdbPair{w: w, ref: ref, tcur: map[string]common.Hash{}}
	// the application's StateDB reports engine failures by panicking: a panic in an operation the reference performs
	// is a difference like any other
	defer func() {
		if x := recover(); x != nil {
			if strings.HasPrefix(fmt.Sprint(x), "harness:") {
				panic(x)
			}
			p.differ("panic", "the application's StateDB panicked: %v", clip(fmt.Sprint(x)))
		}
	}()
	p.real = evmvm.NewStateDB(ctx, coinbase, app.EvmKeeper, app.AccountKeeper, app.BankKeeper)
	view := ViewOf(dump)
	for _, sym := range []string{"w0", "w1", "w2", "c:store", "c:clear", "c:sd", "c:sd2", "c:logs", "fresh0", "fresh1", "fresh2", "n:0", "n:1", "n:2"} {
		a, ok := w.ResolveAddr(sym)
		if !ok {
			continue
		}
		// accounts governed by Cosmos-side rules (module, vesting) are C15's; duplicates out
		if ai := view.Acc[a]; ai != nil && (ai.IsModule || ai.Vesting != nil) {
			continue
		}
		// an account that also holds another denomination is never "empty" for the application (a Cosmos-side rule
		// go-ethereum cannot know): not comparable
		foreign := false
		for d, b := range view.Bal[a] {
			foreign = foreign || (d != BaseDenom && b.Sign() > 0)
		}
		if foreign {
			continue
		}
		dup := false
		for _, b := range p.uni {
			dup = dup || a == b
		}
		if !dup {
			p.uni = append(p.uni, a)
		}
	}
	addr := func(s string) common.Address {
		i, _ := strconv.Atoi(s)
		return p.uni[i%len(p.uni)]
	}
	num := func(s string) *big.Int {
		v, _ := new(big.Int).SetString(s, 10)
		if v == nil {
			v = new(big.Int)
		}
		return v
	}
	r.At(w.C.Height, -1)
	r.Count("o:c03_statedb_sequences")
	p.tok = "start"
	p.compare()
	for i, tok := range op.A {
		if p.bad {
			return
		}
		p.step, p.tok = i, tok
		f := strings.Split(tok, ":")
		arg := func(k int) string {
			if k < len(f) {
				return f[k]
			}
			return "0"
		}
		switch f[0] {
		case "snap":
			p.open = append(p.open, [2]int{p.real.Snapshot(), p.ref.Snapshot()})
			cp := map[string]common.Hash{}
			for k, v := range p.tcur {
				cp[k] = v
			}
			p.tsnap = append(p.tsnap, cp)
		case "rev": // revert the k-th innermost open snapshot (and everything nested in it)
			if len(p.open) == 0 {
				continue
			}
			k, _ := strconv.Atoi(arg(1))
			idx := len(p.open) - 1 - k%len(p.open)
			p.real.RevertToSnapshot(p.open[idx][0])
			p.ref.RevertToSnapshot(p.open[idx][1])
			p.open = p.open[:idx]
			p.tcur, p.tsnap = p.tsnap[idx], p.tsnap[:idx]
			p.nRev++
			r.Count("o:c03_statedb_reverts")
		case "ret": // the innermost frame returns normally: its snapshot is simply forgotten
			if len(p.open) > 0 {
				p.open = p.open[:len(p.open)-1]
				p.tsnap = p.tsnap[:len(p.tsnap)-1]
			}
		case "addbal":
			a, v := addr(arg(1)), num(arg(2))
			p.real.AddBalance(a, v)
			p.ref.AddBalance(a, v)
		case "subbal":
			a, v := addr(arg(1)), num(arg(2))
			if p.ref.GetBalance(a).Cmp(v) < 0 {
				v = new(big.Int).Set(p.ref.GetBalance(a)) // the EVM checks CanTransfer first
			}
			p.real.SubBalance(a, v)
			p.ref.SubBalance(a, v)
		case "xfer": // what Transfer does: sub then add
			a, b, v := addr(arg(1)), addr(arg(2)), num(arg(3))
			if p.ref.GetBalance(a).Cmp(v) < 0 {
				v = new(big.Int).Set(p.ref.GetBalance(a))
			}
			p.real.SubBalance(a, v)
			p.ref.SubBalance(a, v)
			p.real.AddBalance(b, v)
			p.ref.AddBalance(b, v)
		case "nonce":
			a := addr(arg(1))
			n := p.ref.GetNonce(a) + 1
			p.real.SetNonce(a, n)
			p.ref.SetNonce(a, n)
		case "code":
			a := addr(arg(1))
			if p.ref.GetCodeSize(a) > 0 || p.ref.GetNonce(a) > 0 {
				continue // the EVM sets code only on an account it has just created
			}
			code := []byte{0x60, byte(len(tok)), 0x00}
			p.real.CreateAccount(a)
			p.ref.CreateAccount(a)
			p.real.SetNonce(a, 1)
			p.ref.SetNonce(a, 1)
			p.real.SetCode(a, code)
			p.ref.SetCode(a, code)
		case "sstore":
			a, k, v := addr(arg(1)), common.BigToHash(num(arg(2))), common.BigToHash(num(arg(3)))
			if p.ref.GetCodeSize(a) == 0 {
				continue // only contracts have storage
			}
			p.real.SetState(a, k, v)
			p.ref.SetState(a, k, v)
		case "tstore":
			a, k, v := addr(arg(1)), common.BigToHash(num(arg(2))), common.BigToHash(num(arg(3)))
			p.real.SetTransientState(a, k, v)
			p.tcur[a.Hex()+k.Hex()] = v
		case "suicide":
			a := addr(arg(1))
			if p.ref.GetCodeSize(a) == 0 {
				continue // SELFDESTRUCT is executed by code
			}
			b := addr(arg(2))
			bal := p.ref.GetBalance(a)
			p.real.AddBalance(b, bal)
			p.ref.AddBalance(b, bal)
			x, y := p.real.Suicide(a), p.ref.Suicide(a)
			if x != y {
				p.differ("self_destruct_mark", "Suicide(%s) returned %v, reference %v", a.Hex(), x, y)
			}
		case "addref":
			n := num(arg(1)).Uint64()
			p.real.AddRefund(n)
			p.ref.AddRefund(n)
		case "subref":
			n := num(arg(1)).Uint64()
			if n > p.ref.GetRefund() {
				n = p.ref.GetRefund()
			}
			p.real.SubRefund(n)
			p.ref.SubRefund(n)
		case "aladdr":
			a := addr(arg(1))
			p.real.AddAddressToAccessList(a)
			p.ref.AddAddressToAccessList(a)
		case "alslot":
			a, k := addr(arg(1)), common.BigToHash(num(arg(2)))
			p.real.AddSlotToAccessList(a, k)
			p.ref.AddSlotToAccessList(a, k)
		case "log":
			a := addr(arg(1))
			p.nlog++
			mk := func() *ethtypes.Log {
				return &ethtypes.Log{Address: a, Topics: []common.Hash{common.BigToHash(big.NewInt(int64(p.nlog)))}, Data: []byte{byte(p.nlog)}}
			}
			p.real.AddLog(mk())
			p.ref.AddLog(mk())
		default:
			panic("harness: unknown sdb token " + tok)
		}
		p.compare()
	}
	if p.bad {
		return
	}
	r.Probe("statedb_sequence_with_nested_revert", p.nRev > 1)
	if op.Ref == 1 {
		r.Count("o:c03_statedb_discarded")
		return // discard: the branch is dropped; nothing to compare beyond what was compared
	}
	// commit on both sides and compare the resulting accounts
	p.step, p.tok = len(op.A), "commit"
	if err := p.real.CommitMultiStore(true); err != nil {
		p.differ("commit", "CommitMultiStore failed: %v", err)
		return
	}
	if _, err := p.ref.Commit(true); err != nil {
		r.Cross["c03s:reference_commit_failed"]++
		return
	}
	post := ViewOf(w.C.Node.DumpCtx(ctx))
	rd := p.ref.RawDump(&state.DumpConfig{})
	r.Count("o:c03_statedb_committed")
	for _, a := range p.uni {
		ra, inRef := rd.Accounts[a]
		ea := post.Acc[a]
		var rn, en uint64
		rb, eb := new(big.Int), post.Balance(a, BaseDenom)
		var rc, ec []byte
		if inRef {
			rn = ra.Nonce
			rb, _ = new(big.Int).SetString(ra.Balance, 10)
			rc = ra.Code
		}
		if ea != nil {
			en = ea.Seq
		}
		if ch := post.CodeHash[a]; len(ch) > 0 {
			ec = codeOf(w.C.Node.DumpCtx(ctx), ch)
		}
		if rn != en {
			p.differ("nonce", "after commit the nonce of %s is %d, reference %d", a.Hex(), en, rn)
		}
		if rb.Cmp(eb) != 0 {
			p.differ("balance", "after commit the balance of %s is %s, reference %s", a.Hex(), eb, rb)
		}
		if !bytes.Equal(rc, ec) {
			p.differ("code", "after commit the code of %s has %d bytes, reference %d", a.Hex(), len(ec), len(rc))
		}
		for s := 0; s < 4; s++ {
			k := common.BigToHash(big.NewInt(int64(s)))
			var rv common.Hash
			if inRef {
				if v, ok := ra.Storage[k]; ok {
					rv = common.HexToHash(v)
				}
			}
			ev := common.BytesToHash(post.Storage[a][k])
			if rv != ev {
				p.differ("storage", "after commit storage %s[%d] = %s, reference %s", a.Hex(), s, ev.Hex(), rv.Hex())
			}
		}
	}
}

func init() {
	opHandlers["sdb"] = opSdb
}

// genSdbOp generates one StateDB-level sequence.
func genSdbOp(rng *rand.Rand) Op {
	var toks []string
	depth := 0
	n := 4 + rng.IntN(28)
	a := func() string { return strconv.Itoa(rng.IntN(14)) }
	for i := 0; i < n; i++ {
		switch k := rng.IntN(100); {
		case k < 14:
			toks = append(toks, "snap")
			depth++
		case k < 24 && depth > 0:
			toks = append(toks, fmt.Sprintf("rev:%d", pick(rng, 0, 0, 0, 1, 2)))
			depth = 0 // (approximation for the generator only; the interpreter tracks the real depth)
		case k < 28 && depth > 0:
			toks = append(toks, "ret")
			depth--
		case k < 36:
			toks = append(toks, "addbal:"+a()+":"+pick(rng, "0", "1", "1000", "0"))
		case k < 41:
			toks = append(toks, "subbal:"+a()+":"+pick(rng, "0", "1", "999999999999999999999999999"))
		case k < 46:
			toks = append(toks, "xfer:"+a()+":"+a()+":"+pick(rng, "0", "5", "999999999999999999999999999"))
		case k < 51:
			toks = append(toks, "nonce:"+a())
		case k < 56:
			toks = append(toks, "code:"+a())
		case k < 68:
			toks = append(toks, fmt.Sprintf("sstore:%s:%d:%d", a(), rng.IntN(4), pick(rng, 0, 0, 1, 7, 0xff)))
		case k < 73:
			toks = append(toks, fmt.Sprintf("tstore:%s:%d:%d", a(), rng.IntN(4), pick(rng, 0, 1, 9)))
		case k < 79:
			toks = append(toks, "suicide:"+a()+":"+a())
		case k < 84:
			toks = append(toks, "addref:"+pick(rng, "4800", "15000", "1"))
		case k < 88:
			toks = append(toks, "subref:"+pick(rng, "4800", "1", "19800"))
		case k < 92:
			toks = append(toks, "aladdr:"+a())
		case k < 96:
			toks = append(toks, fmt.Sprintf("alslot:%s:%d", a(), rng.IntN(4)))
		default:
			toks = append(toks, "log:"+a())
		}
	}
	return Op{K: "sdb", A: toks, Ref: pick(rng, 0, 0, 0, 1)}
}
