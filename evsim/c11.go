package evsim

import (
	"bytes"
	"encoding/hex"
	"fmt"
	"math/big"
	"math/rand/v2"
	"sort"
	"strings"

	sdkmath "cosmossdk.io/math"
	"github.com/EscanBE/evermint/v12/constants"
	cpcabi "github.com/EscanBE/evermint/v12/x/cpc/abi"
	cpctypes "github.com/EscanBE/evermint/v12/x/cpc/types"
	abci "github.com/cometbft/cometbft/abci/types"
	sdk "github.com/cosmos/cosmos-sdk/types"
	banktypes "github.com/cosmos/cosmos-sdk/x/bank/types"
	distrtypes "github.com/cosmos/cosmos-sdk/x/distribution/types"
	stakingtypes "github.com/cosmos/cosmos-sdk/x/staking/types"
	"github.com/cosmos/gogoproto/proto"
	"github.com/ethereum/go-ethereum/common"
	cmath "github.com/ethereum/go-ethereum/common/math"
	ethcrypto "github.com/ethereum/go-ethereum/crypto"
	"github.com/ethereum/go-ethereum/signer/core/apitypes"
)

// ---- C11: the staking precompile acts only for its caller and mirrors native staking ------------------
//
// Twin chains: chain A receives precompile calls, chain B - same genesis, same schedule, zero gas price so
// that fees perturb nothing - receives the corresponding native staking / distribution messages signed by the
// same accounts. After every block the staking and distribution stores and the whole bank store must be
// identical, the Delegate / Undelegate / WithdrawReward logs of A's receipts must render exactly the module
// events of B's transactions, and the precompile's views must equal the native gRPC queries. Signed-message
// variants: accepted => message.delegator = immediate caller = signer recovered by go-ethereum's upstream
// EIP-712 hashing for this chain id. Calls through contracts (no native counterpart) are decided by the
// caller-only rule on the store diff.

func valBech32(a common.Address) string { return sdk.ValAddress(a.Bytes()).String() }

// stakingTypedData builds the EIP-712 payload of the staking precompile's signed messages from the published scheme.
func stakingTypedData(chainID int64, primary string, types []apitypes.Type, msg apitypes.TypedDataMessage) apitypes.TypedData {
	ver := cpctypes.CpcStakingFixedAddress
	return apitypes.TypedData{
		Types: apitypes.Types{
			"EIP712Domain": {{Name: "name", Type: "string"}, {Name: "version", Type: "string"}, {Name: "chainId", Type: "uint256"}, {Name: "verifyingContract", Type: "address"}, {Name: "salt", Type: "string"}},
			primary:        types,
		},
		PrimaryType: primary,
		Domain: apitypes.TypedDataDomain{Name: strings.ToUpper(constants.ApplicationName), Version: "1.0.0", ChainId: (*cmath.HexOrDecimal256)(big.NewInt(chainID)),
			VerifyingContract: ver.Hex(), Salt: fmt.Sprintf("0x%x", ver.Bytes()[19])},
		Message: msg,
	}
}

type stkMsg struct {
	Action       string
	Delegator    common.Address
	Validator    string
	Amount       *big.Int
	Denom        string
	OldValidator string
}

func (m stkMsg) typed(chainID int64) apitypes.TypedData {
	return stakingTypedData(chainID, "StakingMessage",
		[]apitypes.Type{{Name: "action", Type: "string"}, {Name: "delegator", Type: "address"}, {Name: "validator", Type: "string"}, {Name: "amount", Type: "uint256"}, {Name: "denom", Type: "string"}, {Name: "oldValidator", Type: "string"}},
		apitypes.TypedDataMessage{"action": m.Action, "delegator": m.Delegator.String(), "validator": m.Validator, "amount": (*cmath.HexOrDecimal256)(m.Amount), "denom": m.Denom, "oldValidator": m.OldValidator})
}

// SignedStk is attached to the sent transaction of a signed-message call.
type SignedStk struct {
	Msg       stkMsg
	Variant   string
	R, S      [32]byte
	V         uint8
	Plan      *ChainPlan
	EOA       common.Address
	ShouldRun bool // valid by construction
}

// opStkSigned: K=stk_signed, W sender, A = [action, validator, amount, (oldValidator)], Note variant, Chain.
func opStkSigned(w *World, op *Op) {
	stk, ok := w.ResolveAddr("staking")
	if !ok {
		return
	}
	wl := w.wallet(op.W)
	arg := func(i int) string {
		if i < len(op.A) {
			return op.A[i]
		}
		return ""
	}
	val, _ := w.ResolveAddr(arg(1))
	m := stkMsg{Action: arg(0), Delegator: wl.Addr, Validator: valBech32(val), Amount: relNum(arg(2), big.NewInt(1000), "_"), Denom: BaseDenom, OldValidator: "-"}
	if m.Action == "Redelegate" {
		ov, _ := w.ResolveAddr(arg(3))
		m.OldValidator = valBech32(ov)
	}
	signer := wl
	chainID := int64(EvmChainID)
	switch op.Note {
	case "other_delegator":
		m.Delegator = w.wallet(op.W + 1).Addr
	case "wrong_signer":
		signer = w.wallet(op.W + 1)
	case "wrong_chain":
		chainID++
	}
	hash, _, err := apitypes.TypedDataAndHash(m.typed(chainID))
	if err != nil {
		panic(err)
	}
	sig, err := ethcrypto.Sign(hash, signer.ECDSA)
	if err != nil {
		panic(err)
	}
	ss := &SignedStk{Msg: m, Variant: op.Note, EOA: wl.Addr, V: sig[64]}
	copy(ss.R[:], sig[:32])
	copy(ss.S[:], sig[32:64])
	switch op.Note {
	case "flip_r":
		ss.R[5] ^= 1
	case "flip_s":
		ss.S[31] ^= 2
	case "v27":
		ss.V += 27
	case "flip_v":
		ss.V ^= 1
	case "amount_changed":
		ss.Msg.Amount = new(big.Int).Add(m.Amount, big.NewInt(1))
	case "validator_changed":
		ss.Msg.Validator = valBech32(w.G.Validators[(1+len(op.A))%len(w.G.Validators)].Operator.Addr)
		if ss.Msg.Validator == m.Validator {
			ss.Msg.Amount = new(big.Int).Add(m.Amount, big.NewInt(7))
		}
	}
	tuple := struct {
		Action       string
		Delegator    common.Address
		Validator    string
		Amount       *big.Int
		Denom        string
		OldValidator string
	}{ss.Msg.Action, ss.Msg.Delegator, ss.Msg.Validator, ss.Msg.Amount, ss.Msg.Denom, ss.Msg.OldValidator}
	inner, err := cpcabi.StakingCpcInfo.ABI.Pack("delegateByActionMessage", tuple, ss.R, ss.S, ss.V)
	if err != nil {
		panic(fmt.Sprintf("harness: pack delegateByActionMessage: %v", err))
	}
	hops := ParseChain(op.Chain)
	ss.Plan = w.PlanChain(wl.Addr, hops, stk, inner)
	ss.ShouldRun = (op.Note == "" || op.Note == "v27") && len(hops) == 0
	eop := Op{K: "eth", W: op.W, To: ss.Plan.To.Hex(), Data: hex.EncodeToString(ss.Plan.Data), Gas: "i+3000000", Price: op.Price}
	s := w.BuildEthOp(&eop)
	s.Stk = ss
	w.R.Count("o:stk_signed_" + nz(op.Note, "valid"))
	w.Submit(s, op.Via)
}

func nz(s, d string) string {
	if s == "" {
		return d
	}
	return s
}

func init() {
	opHandlers["stk_signed"] = opStkSigned
	// stk_native: the native counterpart of a precompile call. Note = method, A = args (as for the pc op)
	msgBuilders["stk_native"] = func(w *World, op *Op) []sdk.Msg {
		wl := w.wallet(op.W)
		arg := func(i int) string {
			if i < len(op.A) {
				return op.A[i]
			}
			return "0"
		}
		coin := func(s string) sdk.Coin { return sdk.NewCoin(BaseDenom, sdkmath.NewIntFromBigInt(relNum(s, new(big.Int), "_"))) }
		val := func(s string) string { a, _ := w.ResolveAddr(s); return valBech32(a) }
		switch op.Note {
		case "delegate", "Delegate":
			return []sdk.Msg{&stakingtypes.MsgDelegate{DelegatorAddress: wl.Bech32(), ValidatorAddress: val(arg(0)), Amount: coin(arg(1))}}
		case "undelegate", "Undelegate":
			return []sdk.Msg{&stakingtypes.MsgUndelegate{DelegatorAddress: wl.Bech32(), ValidatorAddress: val(arg(0)), Amount: coin(arg(1))}}
		case "redelegate":
			return []sdk.Msg{&stakingtypes.MsgBeginRedelegate{DelegatorAddress: wl.Bech32(), ValidatorSrcAddress: val(arg(0)), ValidatorDstAddress: val(arg(1)), Amount: coin(arg(2))}}
		case "Redelegate": // signed form: A = [action, dst, amount, src]
			return []sdk.Msg{&stakingtypes.MsgBeginRedelegate{DelegatorAddress: wl.Bech32(), ValidatorSrcAddress: val(arg(2)), ValidatorDstAddress: val(arg(0)), Amount: coin(arg(1))}}
		case "withdrawReward":
			return []sdk.Msg{&distrtypes.MsgWithdrawDelegatorReward{DelegatorAddress: wl.Bech32(), ValidatorAddress: val(arg(0))}}
		case "withdrawMany":
			// withdrawRewards() skips rewards below its documented minimum: the native counterpart withdraws from
			// exactly the validators the precompile reported (WithdrawReward logs)
			var msgs []sdk.Msg
			for _, v := range op.A {
				msgs = append(msgs, &distrtypes.MsgWithdrawDelegatorReward{DelegatorAddress: wl.Bech32(), ValidatorAddress: val(v)})
			}
			if len(msgs) == 0 {
				return []sdk.Msg{selfSend(wl)}
			}
			return msgs
		case "deposit_rewards": // anybody may fund a validator's rewards pool, in any denomination: A = [validator, amount, denom]
			d := arg(2)
			if d == "0" {
				d = BaseDenom
			}
			return []sdk.Msg{&distrtypes.MsgDepositValidatorRewardsPool{Depositor: wl.Bech32(), ValidatorAddress: val(arg(0)),
				Amount: sdk.NewCoins(sdk.NewCoin(d, sdkmath.NewIntFromBigInt(relNum(arg(1), new(big.Int), "_"))))}}
		case "noop":
			return []sdk.Msg{selfSend(wl)}
		}
		panic("harness: unknown native staking recipe " + op.Note)
	}
	Arms["C11"] = &Arm{Gen: genC11, Run: runC11}
}

func selfSend(wl *Wallet) sdk.Msg {
	return &banktypes.MsgSend{FromAddress: wl.Bech32(), ToAddress: wl.Bech32(), Amount: sdk.NewCoins(sdk.NewInt64Coin(BaseDenom, 1))}
}

// translateForTwin maps an op of chain A to what chain B receives.
func translateForTwin(op Op) Op {
	switch op.K {
	case "pc":
		md := pcMethods[pcKindOfTarget(op.To)][op.Mut]
		if op.To == "staking" && md.Write && op.Chain == "" && op.Mut != "transfer" {
			return Op{K: "msg", W: op.W, Mut: "stk_native", Note: op.Mut, A: op.A, Price: c11Price, Gas: "3000000"}
		}
		return Op{K: "msg", W: op.W, Mut: "stk_native", Note: "noop", Price: c11Price, Gas: "3000000"}
	case "stk_signed":
		if (op.Note == "" || op.Note == "v27") && op.Chain == "" {
			a := []string{op.A[1], op.A[2]}
			note := op.A[0]
			if note == "Redelegate" {
				a = []string{op.A[1], op.A[2], op.A[3]}
			}
			return Op{K: "msg", W: op.W, Mut: "stk_native", Note: note, A: a, Price: c11Price, Gas: "3000000"}
		}
		return Op{K: "msg", W: op.W, Mut: "stk_native", Note: "noop", Price: c11Price, Gas: "3000000"}
	}
	return op
}

// delegatorOfKey extracts the delegator of a staking / distribution key that belongs to one delegator.
func delegatorOfKey(store string, k []byte) (common.Address, bool) {
	lp := func(b []byte) ([]byte, []byte, bool) {
		if len(b) < 1 || int(b[0])+1 > len(b) {
			return nil, nil, false
		}
		return b[1 : 1+int(b[0])], b[1+int(b[0]):], true
	}
	if len(k) < 2 {
		return common.Address{}, false
	}
	switch store {
	case "staking":
		switch k[0] {
		case 0x31, 0x32, 0x34: // delegation, unbonding delegation, redelegation: prefix | len | delegator | ...
			d, _, ok := lp(k[1:])
			if ok && len(d) == 20 {
				return common.BytesToAddress(d), true
			}
		}
	case "distribution":
		switch k[0] {
		case 0x04: // delegator starting info: prefix | len | validator | len | delegator
			_, rest, ok := lp(k[1:])
			if ok {
				d, _, ok2 := lp(rest)
				if ok2 && len(d) == 20 {
					return common.BytesToAddress(d), true
				}
			}
		case 0x03: // delegator withdraw address
			d, _, ok := lp(k[1:])
			if ok && len(d) == 20 {
				return common.BytesToAddress(d), true
			}
		}
	}
	return common.Address{}, false
}

// c11PerTx: caller-only rule and the signed-message rule on chain A.
func c11PerTx(w *World, rec *BlockRecord, txs []*TxInfo) {
	r := w.R
	for _, t := range txs {
		if t.EthTx == nil || w.ByHash == nil || t.Obs == nil || t.Obs.After == nil || !t.HasReceipt {
			continue
		}
		s := w.ByHash[t.EthTx.Hash()]
		if s == nil {
			continue
		}
		r.At(rec.Height, t.Pos)
		var plan *ChainPlan
		method := ""
		switch {
		case s.PcCall != nil && s.PcCall.Kind == "staking":
			plan, method = s.PcCall.Plan, s.PcCall.Method
		case s.Stk != nil:
			plan, method = s.Stk.Plan, "delegateByActionMessage"
		default:
			continue
		}
		if method == "transfer" {
			continue
		}
		for _, d := range Diff(t.Obs.Before, t.Obs.After) {
			if del, ok := delegatorOfKey(d.Store, d.Key); ok && del != plan.Caller {
				r.Violate("C11", "acted_on_another_delegator", map[string]string{"method": method, "store": d.Store}, "%s by caller %s changed a record of delegator %s: %s", method, plan.Caller.Hex(), del.Hex(), d)
				break
			}
		}
		r.Count("o:c11_caller_only_checked")
		if ss := s.Stk; ss != nil {
			resp := DecodeDeliveredEth(t.Res)
			innerOK := !t.Rc.HasErr
			if n := len(ss.Plan.Hops); n > 0 && resp != nil {
				if flags, _, ok := UnwrapRouterReturn(resp.Ret, n); ok {
					innerOK = flags[n-1]
				}
			}
			// independent recovery with go-ethereum's upstream EIP-712 hashing for THIS chain id
			hash, _, err := apitypes.TypedDataAndHash(ss.Msg.typed(EvmChainID))
			recovered := common.Address{}
			if err == nil {
				sig := append(append(append([]byte{}, ss.R[:]...), ss.S[:]...), ss.V)
				if sig[64] >= 27 {
					sig[64] -= 27
				}
				if pub, e := ethcrypto.SigToPub(hash, sig); e == nil {
					recovered = ethcrypto.PubkeyToAddress(*pub)
				}
			}
			legit := ss.Msg.Delegator == ss.Plan.Caller && recovered == ss.Msg.Delegator
			r.Probe("signed_message_forged_variant_offered", !legit)
			if innerOK && !legit {
				r.Violate("C11", "forged_signed_message_accepted", map[string]string{"variant": nz(ss.Variant, "valid"), "via_contract": fmt.Sprint(len(ss.Plan.Hops) > 0)},
					"delegateByActionMessage accepted: message delegator %s, immediate caller %s, EIP-712 signer for this chain %s", ss.Msg.Delegator.Hex(), ss.Plan.Caller.Hex(), recovered.Hex())
			}
			if !innerOK && ss.ShouldRun {
				r.Cross["c11:valid_signed_message_refused"]++
			}
		}
	}
}

// expectedLogsFromEvents renders module events the way the property states (Delegate / Undelegate / WithdrawReward).
func expectedLogsFromEvents(evs []abci.Event) []string {
	var out []string
	get := func(e abci.Event, k string) string { v, _ := attr(e, k); return v }
	amt := func(s string) string {
		coins, err := sdk.ParseCoinsNormalized(s)
		if err != nil {
			return "?"
		}
		return coins.AmountOf(BaseDenom).String()
	}
	valHex := func(s string) string {
		v, err := sdk.ValAddressFromBech32(s)
		if err != nil {
			return "?"
		}
		return common.BytesToAddress(v).Hex()
	}
	for _, e := range evs {
		switch e.Type {
		case "delegate":
			if a := amt(get(e, "amount")); a != "0" {
				out = append(out, "Delegate|"+valHex(get(e, "validator"))+"|"+a)
			}
		case "unbond":
			if a := amt(get(e, "amount")); a != "0" {
				out = append(out, "Undelegate|"+valHex(get(e, "validator"))+"|"+a)
			}
		case "redelegate":
			if a := amt(get(e, "amount")); a != "0" {
				out = append(out, "Undelegate|"+valHex(get(e, "source_validator"))+"|"+a, "Delegate|"+valHex(get(e, "destination_validator"))+"|"+a)
			}
		case "withdraw_rewards":
			if a := amt(get(e, "amount")); a != "0" && a != "?" {
				out = append(out, "WithdrawReward|"+valHex(get(e, "validator"))+"|"+a)
			}
		}
	}
	return out
}

var stakingLogNames = map[common.Hash]string{
	common.BytesToHash(keccak([]byte("Delegate(address,address,uint256)"))):       "Delegate",
	common.BytesToHash(keccak([]byte("Undelegate(address,address,uint256)"))):     "Undelegate",
	common.BytesToHash(keccak([]byte("WithdrawReward(address,address,uint256)"))): "WithdrawReward",
}

const c11Price = "1000" // every tx of the twin arm pays this price: fees on both chains can be made equal

func runC11(rt *Runtime, r *RunCtx, s *Script) {
	rt.Bubble(s.WallOffsetS, func() {
		a := NewWorld(r, s)
		for i, name := range TemplateNames {
			a.Labels[name] = GenesisContractAddr(i)
		}
		a.OnBlock = append(a.OnBlock, c11PerTx)
		checkInit(r, a.C)
		for i := range s.Ops {
			op := s.Ops[i]
			a.Exec(i, &op)
			if op.K == "block" && !a.C.Halted {
				c11Views(a)
				c11ViewWitness(a)
			}
		}
		if s.Extra["twin"] != "1" || a.C.Halted {
			return
		}
		// what every generated tx of chain A paid: the native counterpart on chain B declares exactly that fee
		paid := map[int]*big.Int{}
		executed := map[int]bool{}
		withdrew := map[int][]string{}
		for _, rec := range a.C.Records {
			if rec.Res == nil {
				continue
			}
			for _, t := range ParseBlock(rec) {
				if t.EthTx == nil || !t.HasEthEvent {
					continue
				}
				if snt := a.ByHash[t.EthTx.Hash()]; snt != nil {
					paid[snt.OpIdx] = new(big.Int).Mul(new(big.Int).SetUint64(gasUsedForFee(t)), EffectivePrice(t.EthTx, BaseFeeOf(t.Obs.Before)))
					executed[snt.OpIdx] = true
					if t.HasReceipt && t.Rc.Receipt != nil {
						for _, l := range t.Rc.Receipt.Logs {
							if len(l.Topics) == 3 && stakingLogNames[l.Topics[0]] == "WithdrawReward" {
								withdrew[snt.OpIdx] = append(withdrew[snt.OpIdx], common.BytesToAddress(l.Topics[2][:]).Hex())
							}
						}
					}
				}
			}
		}
		rb := NewRunCtx(r.Prop+"-twin", r.Seed)
		b := NewWorld(rb, s)
		for i, name := range TemplateNames {
			b.Labels[name] = GenesisContractAddr(i)
		}
		for i := range s.Ops {
			op := s.Ops[i]
			top := translateForTwin(op)
			if top.K == "msg" && top.Mut == "stk_native" && (op.K == "pc" || op.K == "stk_signed") {
				if !executed[i] {
					continue // never passed admission on chain A: no effect there, none here
				}
				top.Val = paid[i].String()
				if op.K == "pc" && op.Mut == "withdrawRewards" && op.Chain == "" {
					top.Note, top.A = "withdrawMany", withdrew[i]
					r.Probe("withdraw_rewards_above_minimum_mirrored", len(withdrew[i]) > 0)
				}
			}
			b.Exec(i, &top)
		}
		if b.C.Halted || len(b.C.Records) != len(a.C.Records) {
			r.Cross["c11:twin_chain_incomplete"]++
			return
		}
		for k := range a.C.Records {
			if !c11CompareTwin(a, b, k) {
				break
			}
		}
	})
}

// c11CompareTwin: after a block, chain A (precompile calls) and chain B (native messages) must agree.
func c11CompareTwin(a, b *World, k int) bool {
	r := a.R
	ra, rb := a.C.Records[k], b.C.Records[k]
	if ra.Obs == nil || rb.Obs == nil || ra.Obs.AfterEnd == nil || rb.Obs.AfterEnd == nil {
		return true
	}
	r.At(ra.Height, -1)
	r.Count("o:c11_twin_blocks_compared")
	for _, st := range []string{"staking", "distribution", "bank"} {
		da := &Dump{Stores: map[string][]KV{st: ra.Obs.AfterEnd.Stores[st]}}
		db := &Dump{Stores: map[string][]KV{st: rb.Obs.AfterEnd.Stores[st]}}
		d := Diff(db, da)
		if st == "staking" {
			// historical info entries hold the block header (app hash, results hash ...), which legitimately differs
			keep := d[:0]
			for _, e := range d {
				if len(e.Key) > 0 && e.Key[0] == 0x50 {
					continue
				}
				keep = append(keep, e)
			}
			d = keep
		}
		if len(d) > 0 {
			r.Violate("C11", "differs_from_native_staking", map[string]string{"store": st}, "after block %d the %s store differs between the chain driven by precompile calls and the chain driven by native messages in %d keys, first (native -> precompile) %s", ra.Height, st, len(d), d[0])
			return false // everything after is a consequence
		}
	}
	// logs of A's receipts render exactly the module events of B's transactions
	ta, tb := ParseBlock(ra), ParseBlock(rb)
	for i := 0; i < len(ta) && i < len(tb); i++ {
		t := ta[i]
		if t.EthTx == nil || a.ByHash == nil || !t.HasReceipt || t.Rc.Receipt == nil {
			continue
		}
		s := a.ByHash[t.EthTx.Hash()]
		if s == nil || (s.PcCall == nil && s.Stk == nil) {
			continue
		}
		if s.PcCall != nil && (s.PcCall.Kind != "staking" || !pcMethods["staking"][s.PcCall.Method].Write || s.PcCall.Method == "transfer" || len(s.PcCall.Plan.Hops) > 0) {
			continue
		}
		if s.Stk != nil && !s.Stk.ShouldRun {
			continue
		}
		var got []string
		for _, l := range t.Rc.Receipt.Logs {
			if name, ok := stakingLogNames[l.Topics[0]]; ok && len(l.Topics) == 3 {
				got = append(got, name+"|"+common.BytesToAddress(l.Topics[2][:]).Hex()+"|"+new(big.Int).SetBytes(l.Data).String())
			}
		}
		var want []string
		if tb[i].Res != nil && tb[i].Res.Code == 0 {
			want = expectedLogsFromEvents(tb[i].Res.Events)
		}
		sort.Strings(got)
		sort.Strings(want)
		r.At(ra.Height, i)
		r.Count("o:c11_logs_vs_events_checked")
		if strings.Join(got, ",") != strings.Join(want, ",") {
			r.Violate("C11", "logs_do_not_match_module_events", nil, "receipt logs %v, the native message produced module events rendering to %v", got, want)
		}
	}
	return true
}

// c11Views: the precompile's view methods report what the native queries report on the same state.
func c11Views(w *World) {
	r := w.R
	stk, ok := w.ResolveAddr("staking")
	if !ok {
		return
	}
	r.At(w.C.Height, -1)
	n := len(w.G.Wallets)
	acct := w.G.Wallets[int(w.C.Height)%n]
	accounts := []common.Address{acct.Addr, w.RouterAddr(0)}
	for _, acc := range accounts {
		bech := sdk.AccAddress(acc.Bytes()).String()
		total := new(big.Int)
		rewardsTotal := new(big.Int)
		var delegated []common.Address
		for _, v := range w.G.Validators {
			va := v.Operator.Addr
			// native: delegation balance
			nat := new(big.Int)
			res, ok := w.grpcQuery("/cosmos.staking.v1beta1.Query/Delegation", &stakingtypes.QueryDelegationRequest{DelegatorAddr: bech, ValidatorAddr: valBech32(va)}, 0)
			if ok && res.Code == 0 {
				var qr stakingtypes.QueryDelegationResponse
				if err := proto.Unmarshal(res.Value, &qr); err == nil && qr.DelegationResponse != nil {
					nat = qr.DelegationResponse.Balance.Amount.BigInt()
					delegated = append(delegated, va)
				}
			}
			total.Add(total, nat)
			if got, ok := w.viewCall(stk, CallData("delegationOf(address,address)", acc, va)); ok {
				r.Count("o:c11_views_checked")
				if !bytes.Equal(got, Word(nat)) {
					r.Violate("C11", "view_differs_from_native_query", map[string]string{"view": "delegationOf"}, "delegationOf(%s, %s) = %x, native query says %s", acc.Hex(), va.Hex(), got, nat)
				}
			}
			natR := new(big.Int)
			res, ok = w.grpcQuery("/cosmos.distribution.v1beta1.Query/DelegationRewards", &distrtypes.QueryDelegationRewardsRequest{DelegatorAddress: bech, ValidatorAddress: valBech32(va)}, 0)
			if ok && res.Code == 0 {
				var qr distrtypes.QueryDelegationRewardsResponse
				if err := proto.Unmarshal(res.Value, &qr); err == nil {
					natR = qr.Rewards.AmountOf(BaseDenom).TruncateInt().BigInt()
				}
			}
			rewardsTotal.Add(rewardsTotal, natR)
			if got, ok := w.viewCall(stk, CallData("rewardOf(address,address)", acc, va)); ok {
				r.Count("o:c11_views_checked")
				if !bytes.Equal(got, Word(natR)) {
					r.Violate("C11", "view_differs_from_native_query", map[string]string{"view": "rewardOf"}, "rewardOf(%s, %s) = %x, native query says %s", acc.Hex(), va.Hex(), got, natR)
				}
			}
		}
		if got, ok := w.viewCall(stk, CallData("totalDelegationOf(address)", acc)); ok && !bytes.Equal(got, Word(total)) {
			r.Violate("C11", "view_differs_from_native_query", map[string]string{"view": "totalDelegationOf"}, "totalDelegationOf(%s) = %x, native delegations sum to %s", acc.Hex(), got, total)
		}
		// rewardsOf: the native total-rewards query truncates the SUM of decimals
		res, ok := w.grpcQuery("/cosmos.distribution.v1beta1.Query/DelegationTotalRewards", &distrtypes.QueryDelegationTotalRewardsRequest{DelegatorAddress: bech}, 0)
		if ok && res.Code == 0 {
			var qr distrtypes.QueryDelegationTotalRewardsResponse
			if err := proto.Unmarshal(res.Value, &qr); err == nil {
				natT := qr.Total.AmountOf(BaseDenom).TruncateInt().BigInt()
				if got, ok := w.viewCall(stk, CallData("rewardsOf(address)", acc)); ok && !bytes.Equal(got, Word(natT)) {
					r.Violate("C11", "view_differs_from_native_query", map[string]string{"view": "rewardsOf"}, "rewardsOf(%s) = %x, native query says %s", acc.Hex(), got, natT)
				}
				bal := w.C.Node.App.BankKeeper.GetBalance(w.ctx(), sdk.AccAddress(acc.Bytes()), BaseDenom).Amount.BigInt()
				if got, ok := w.viewCall(stk, CallData("balanceOf(address)", acc)); ok && !bytes.Equal(got, Word(new(big.Int).Add(bal, natT))) {
					r.Violate("C11", "view_differs_from_native_query", map[string]string{"view": "balanceOf"}, "balanceOf(%s) = %x, bank balance %s + native rewards %s", acc.Hex(), got, bal, natT)
				}
			}
		}
		_ = delegated
	}
}

// ---- generator ------------------------------------------------------------------------------------------

func genC11(rng *rand.Rand, seed uint64, tier string) *Script {
	g := pcGenesis(rng)
	g.Validators = 2 + rng.IntN(2)
	g.BaseFee, g.MinGasPrice = "7", "0" // every tx pays the same fixed price; the native counterpart declares exactly the fee its twin paid
	g.MaxGas = pick(rng, int64(40_000_000), -1)
	g.UnbondingS = pick(rng, int64(3600), 60)
	twin := rng.IntN(3) > 0
	s := &Script{Prop: "C11", Seed: seed, Gen: g, Extra: map[string]string{"twin": "0"}}
	if twin {
		s.Extra["twin"] = "1"
	}
	val := func() string { return fmt.Sprintf("val%d", rng.IntN(g.Validators)) }
	ops := []Op{{K: "block", Dt: 5}}
	if !twin {
		for i := 0; i < nRouters; i++ {
			ops = append(ops, Op{K: "bank", W: 1, To: fmt.Sprintf("c:router%d", i), Val: "900000000", Denom: BaseDenom, Price: c11Price, Gas: "200000"})
		}
		ops = append(ops, Op{K: "block", Dt: 5})
		ops = append(ops, Op{K: "vw", W: 0, Mut: "delegate", A: []string{val(), "300000000000000000000"}, Price: c11Price}, Op{K: "block", Dt: 5})
	}
	vwOp := func() Op {
		op := Op{K: "vw", W: rng.IntN(g.Wallets), Price: c11Price}
		switch k := rng.IntN(100); {
		case k < 20:
			op.Mut = "transfer_covered_by_rewards"
		case k < 35:
			op.Mut = "withdrawRewards"
		case k < 55:
			op.Mut, op.A = "withdrawReward", []string{val()}
		case k < 75:
			op.Mut, op.A = "delegate", []string{val(), pick(rng, "1000", "50000000000000000000", "999999999999999999999999")}
		case k < 88:
			op.Mut, op.A = "undelegate", []string{val(), pick(rng, "10", "1000000000")}
		default:
			op.Mut, op.A = "redelegate", []string{"val0", "val1", pick(rng, "10", "400")}
		}
		return op
	}
	nb := 5 + rng.IntN(9)
	for b := 0; b < nb; b++ {
		for i, n := 0, 1+rng.IntN(5); i < n; i++ {
			w := rng.IntN(g.Wallets)
			chain := ""
			if !twin {
				chain = pick(rng, "", "c", "c", "d", "cc", "c.c", "c.d")
			}
			op := Op{K: "pc", W: w, To: "staking", Chain: chain, Gas: "i+3000000"}
			switch k := rng.IntN(100); {
			case k < 25:
				op.Mut, op.A = "delegate", []string{val(), pick(rng, "1000", "1000000000", "5", "999999999999999999999999", "5000000000000000000", "300000000000000000000", "300000000000000000000")}
			case k < 38:
				op.Mut, op.A = "undelegate", []string{val(), pick(rng, "10", "500", "1000000000", "1")}
			case k < 48:
				op.Mut, op.A = "redelegate", []string{"val0", "val1", pick(rng, "10", "400")}
				if rng.IntN(2) == 0 {
					op.A = []string{"val1", "val0", "7"}
				}
			case k < 58:
				op.Mut, op.A = "withdrawReward", []string{val()}
			case k < 66:
				op.Mut = "withdrawRewards"
			case k < 72:
				op.Mut, op.A = pick(rng, "rewardOf", "delegationOf"), []string{"caller", val()}
			case k < 88: // signed-message variants
				act := pick(rng, "Delegate", "Delegate", "Undelegate", "Redelegate")
				so := Op{K: "stk_signed", W: w, A: []string{act, val(), pick(rng, "1000", "77", "1000000")}, Price: c11Price, Chain: chain,
					Note: pick(rng, "", "", "", "v27", "other_delegator", "wrong_signer", "wrong_chain", "flip_r", "flip_s", "flip_v", "amount_changed", "validator_changed")}
				if act == "Redelegate" {
					so.A = []string{act, "val1", "5", "val0"}
				}
				if twin && rng.IntN(4) == 0 {
					// relayed through a contract although the twin has no counterpart: must be refused, so nothing diverges
					so.Chain = "c"
				}
				ops = append(ops, so)
				continue
			case k < 94: // native staking traffic from the same accounts, on both chains
				if rng.IntN(4) == 0 {
					// rewards in a second denomination (and more of the first): whole units for every delegator
					ops = append(ops, Op{K: "msg", W: w, Mut: "stk_native", Note: "deposit_rewards", A: []string{val(), pick(rng, "5000000000000000000000", "70000000"), pick(rng, "utwo", "utwo", BaseDenom)}, Price: c11Price, Gas: "3000000"})
					continue
				}
				ops = append(ops, Op{K: "msg", W: w, Mut: "stk_native", Note: pick(rng, "delegate", "undelegate", "withdrawReward"), A: []string{val(), pick(rng, "1000", "50")}, Price: c11Price, Gas: "3000000"})
				continue
			default:
				ops = append(ops, Op{K: "bank", W: w, To: fmt.Sprintf("w%d", (w+1)%g.Wallets), Val: "12345", Price: c11Price, Gas: "200000"})
				continue
			}
			op.Price = c11Price
			ops = append(ops, op)
		}
		if !twin && rng.IntN(2) == 0 {
			// a generous fee: the next block distributes it, so that delegators have whole coins of rewards pending
			ops = append(ops, Op{K: "bank", W: 1 + rng.IntN(g.Wallets-1), To: "w0", Val: "1", Price: "100000000000000", Gas: "200000"})
		}
		if !twin && rng.IntN(2) == 0 {
			ops = append(ops, vwOp()) // the view witness is the last tx of its block
		}
		ops = append(ops, Op{K: "block", Dt: pick(rng, 1, 5, 5, 30), Prop: rng.IntN(3)})
		for i, n := 0, pick(rng, 0, 0, 2, 6); i < n; i++ {
			ops = append(ops, Op{K: "block", Dt: 5, Prop: rng.IntN(3)}) // rewards accrue
		}
		if rng.IntN(8) == 0 {
			ops = append(ops, Op{K: "jump", Dt: pick(rng, 100, 4000)}) // unbonding completes
		}
	}
	ops = append(ops, Op{K: "block", Dt: 5})
	s.Ops = ops
	return s
}
