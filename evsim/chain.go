package evsim

import (
	"bytes"
	"fmt"
	"time"

	abci "github.com/cometbft/cometbft/abci/types"
	cmtproto "github.com/cometbft/cometbft/proto/tendermint/types"
	cmtversion "github.com/cometbft/cometbft/proto/tendermint/version"
	cmttypes "github.com/cometbft/cometbft/types"
	"github.com/cometbft/cometbft/version"
	sdkdb "github.com/cosmos/cosmos-db"
)

// BlockRecord is everything the consensus stub knows about one decided height.
type BlockRecord struct {
	Height   int64
	Time     time.Time
	Proposer int // index into genesis validators, -1 unknown
	Block    *cmttypes.Block
	Req      *abci.RequestFinalizeBlock
	Res      *abci.ResponseFinalizeBlock
	AppHash  []byte // LastCommitID().Hash after Commit
	Obs      *BlockObs
	Err      error
	Panic    *PanicInfo
	// proposal phase
	PrepPanic, ProcPanic *PanicInfo
	PrepErr, ProcErr     error
	ProcStatus           abci.ResponseProcessProposal_ProposalStatus
	Byzantine            bool
	MaxGas               int64 // consensus max gas in force for this height
}

// Chain is the consensus stub driving one primary node. Replicas re-execute Records.
type Chain struct {
	G       *Built
	Node    *Node
	Height  int64 // last decided height
	Time    time.Time
	AppHash []byte
	Records []*BlockRecord
	Halted  bool

	lastBlockID     cmttypes.BlockID
	lastResultsHash []byte
	lastCommit      *cmttypes.Commit
	prevValSet      *cmttypes.ValidatorSet // validators of height Height
	curVals         *cmttypes.ValidatorSet // validators of height Height+1
	nextVals        *cmttypes.ValidatorSet // validators of height Height+2
	InitRes         *abci.ResponseInitChain
	InitPanic       *PanicInfo
	InitErr         error
	consParams      *cmtproto.ConsensusParams
}

// NewChain builds the primary node over db and runs InitChain.
func NewChain(g *Built, db sdkdb.DB, opts NodeOpts) *Chain {
	c := &Chain{G: g}
	c.Node = NewNode("primary", db, opts)
	c.InitRes, c.InitErr, c.InitPanic = c.Node.InitChain(g.InitChain)
	if c.InitErr != nil || c.InitPanic != nil {
		c.Halted = true
		return c
	}
	c.consParams = g.InitChain.ConsensusParams
	c.Time = g.InitChain.Time
	c.AppHash = c.InitRes.AppHash
	c.curVals = g.ValSet.Copy()
	if len(c.InitRes.Validators) > 0 {
		// genesis validators come from the staking module
		ups, err := cmttypes.PB2TM.ValidatorUpdates(c.InitRes.Validators)
		if err != nil {
			panic(err)
		}
		c.curVals = cmttypes.NewValidatorSet(ups)
	}
	c.nextVals = c.curVals.Copy()
	c.lastCommit = &cmttypes.Commit{}
	return c
}

// ValIndexByConsAddr maps a consensus address to the genesis validator index.
func (c *Chain) ValIndexByConsAddr(addr []byte) int {
	for i, v := range c.G.Validators {
		if bytes.Equal(v.ConsPub.Address(), addr) {
			return i
		}
	}
	return -1
}

// BlockOpts steers one height.
type BlockOpts struct {
	Dt         time.Duration
	ProposerAt int  // choose curVals.Validators[ProposerAt % n]
	Honest     bool // run PrepareProposal on the txs
	SkipCommit bool // FinalizeBlock only (a crash before Commit is simulated by the caller)
	Absent     []int
}

func (c *Chain) commitInfo() abci.CommitInfo {
	ci := abci.CommitInfo{}
	if c.Height == 0 {
		return ci
	}
	for _, v := range c.prevVals().Validators {
		ci.Votes = append(ci.Votes, abci.VoteInfo{
			Validator:   abci.Validator{Address: v.Address, Power: v.VotingPower},
			BlockIdFlag: cmtproto.BlockIDFlagCommit,
		})
	}
	return ci
}

func (c *Chain) prevVals() *cmttypes.ValidatorSet {
	if c.prevValSet != nil {
		return c.prevValSet
	}
	return c.curVals
}

// BuildProposal assembles the next block (header, commit, request) for the given txs.
func (c *Chain) BuildProposal(txs [][]byte, o BlockOpts) *BlockRecord {
	h := c.Height + 1
	t := c.Time.Add(o.Dt)
	n := len(c.curVals.Validators)
	prop := c.curVals.Validators[((o.ProposerAt%n)+n)%n]
	ctxs := make(cmttypes.Txs, len(txs))
	for i, b := range txs {
		ctxs[i] = cmttypes.Tx(b)
	}
	blk := cmttypes.MakeBlock(h, ctxs, c.lastCommit, nil)
	cp := cmttypes.ConsensusParamsFromProto(*c.consParams)
	blk.Header.Populate(
		cmtversion.Consensus{Block: version.BlockProtocol, App: 0}, ChainID,
		t, c.lastBlockID,
		c.curVals.Hash(), c.nextVals.Hash(),
		cp.Hash(), c.AppHash, c.lastResultsHash,
		prop.Address,
	)
	req := &abci.RequestFinalizeBlock{
		Txs:                txs,
		DecidedLastCommit:  c.commitInfo(),
		Hash:               blk.Hash(),
		Height:             h,
		Time:               t,
		NextValidatorsHash: c.nextVals.Hash(),
		ProposerAddress:    prop.Address,
	}
	return &BlockRecord{Height: h, Time: t, Block: blk, Req: req, Proposer: c.ValIndexByConsAddr(prop.Address), MaxGas: c.consParams.Block.MaxGas}
}

// Propose runs the real PrepareProposal (honest proposer) and ProcessProposal on the primary.
func (c *Chain) Propose(txs [][]byte, o BlockOpts) (*BlockRecord, [][]byte) {
	h := c.Height + 1
	t := c.Time.Add(o.Dt)
	n := len(c.curVals.Validators)
	prop := c.curVals.Validators[((o.ProposerAt%n)+n)%n]
	out := txs
	var prepPanic *PanicInfo
	var prepErr error
	if o.Honest {
		res, err, pi := c.Node.PrepareProposal(&abci.RequestPrepareProposal{
			MaxTxBytes: c.consParams.Block.MaxBytes, Txs: txs, Height: h, Time: t,
			NextValidatorsHash: c.nextVals.Hash(), ProposerAddress: prop.Address,
			LocalLastCommit: abci.ExtendedCommitInfo{},
		})
		prepPanic, prepErr = pi, err
		if res != nil {
			out = res.Txs
		}
	}
	rec := c.BuildProposal(out, o)
	rec.PrepPanic, rec.PrepErr = prepPanic, prepErr
	pres, perr, ppi := c.Node.ProcessProposal(&abci.RequestProcessProposal{
		Txs: out, ProposedLastCommit: rec.Req.DecidedLastCommit, Hash: rec.Req.Hash, Height: h, Time: t,
		NextValidatorsHash: rec.Req.NextValidatorsHash, ProposerAddress: prop.Address,
	})
	rec.ProcPanic, rec.ProcErr = ppi, perr
	if pres != nil {
		rec.ProcStatus = pres.Status
	}
	return rec, out
}

// Decide executes FinalizeBlock (+Commit) for a proposal on the primary and advances the chain.
func (c *Chain) Decide(rec *BlockRecord, o BlockOpts) *BlockRecord {
	res, err, pi := c.Node.FinalizeBlock(rec.Req)
	rec.Res, rec.Err, rec.Panic = res, err, pi
	if err != nil || pi != nil {
		c.Halted = true
		c.Records = append(c.Records, rec)
		return rec
	}
	if o.SkipCommit {
		return rec
	}
	return c.CommitDecided(rec)
}

// CommitDecided commits a finalized block and advances consensus state.
func (c *Chain) CommitDecided(rec *BlockRecord) *BlockRecord {
	_, err, pi := c.Node.Commit()
	if err != nil || pi != nil {
		rec.Err, rec.Panic = err, pi
		c.Halted = true
		c.Records = append(c.Records, rec)
		return rec
	}
	rec.Obs = c.Node.LastObs
	rec.AppHash = append([]byte(nil), c.Node.App.LastCommitID().Hash...)
	c.advance(rec)
	return rec
}

func (c *Chain) advance(rec *BlockRecord) {
	res := rec.Res
	if !bytes.Equal(res.AppHash, rec.AppHash) {
		panic(fmt.Sprintf("harness: FinalizeBlock app hash %x != committed %x", res.AppHash, rec.AppHash))
	}
	c.Height = rec.Height
	c.Time = rec.Time
	c.AppHash = rec.AppHash
	c.lastResultsHash = cmttypes.NewResults(res.TxResults).Hash()
	ps, err := rec.Block.MakePartSet(cmttypes.BlockPartSizeBytes)
	if err != nil {
		panic(err)
	}
	c.lastBlockID = cmttypes.BlockID{Hash: rec.Block.Hash(), PartSetHeader: ps.Header()}
	// commit for the next block: every validator of this height signs
	sigs := make([]cmttypes.CommitSig, len(c.curVals.Validators))
	for i, v := range c.curVals.Validators {
		sigs[i] = cmttypes.CommitSig{BlockIDFlag: cmttypes.BlockIDFlagCommit, ValidatorAddress: v.Address, Timestamp: rec.Time, Signature: bytes.Repeat([]byte{byte(i + 1)}, 64)}
	}
	c.lastCommit = &cmttypes.Commit{Height: rec.Height, Round: 0, BlockID: c.lastBlockID, Signatures: sigs}
	c.prevValSet = c.curVals
	// validator updates of height H apply to H+2
	nn := c.nextVals.Copy()
	if len(res.ValidatorUpdates) > 0 {
		ups, err := cmttypes.PB2TM.ValidatorUpdates(res.ValidatorUpdates)
		if err != nil {
			panic(err)
		}
		if err := nn.UpdateWithChangeSet(ups); err != nil {
			panic(fmt.Sprintf("harness: validator updates rejected: %v", err))
		}
	}
	c.curVals = c.nextVals
	c.nextVals = nn
	if res.ConsensusParamUpdates != nil {
		u := res.ConsensusParamUpdates
		if u.Block != nil {
			c.consParams.Block = u.Block
		}
		if u.Evidence != nil {
			c.consParams.Evidence = u.Evidence
		}
		if u.Validator != nil {
			c.consParams.Validator = u.Validator
		}
	}
	c.Records = append(c.Records, rec)
}

// Block is the common path: propose (optionally through PrepareProposal), process, finalize, commit.
func (c *Chain) Block(txs [][]byte, o BlockOpts) *BlockRecord {
	if c.Halted {
		return nil
	}
	rec, _ := c.Propose(txs, o)
	rec.Byzantine = !o.Honest
	return c.Decide(rec, o)
}

func (c *Chain) maxGasAt(h int64) int64 {
	for i := len(c.Records) - 1; i >= 0; i-- {
		if c.Records[i].Height == h {
			return c.Records[i].MaxGas
		}
	}
	return c.consParams.Block.MaxGas
}

// MaxGas returns the current consensus max gas.
func (c *Chain) MaxGas() int64 { return c.consParams.Block.MaxGas }
