package evsim

import (
	"bytes"
	"fmt"
	ethcrypto "github.com/ethereum/go-ethereum/crypto"
	"math/big"
	"strconv"
	"strings"

	sdkmath "cosmossdk.io/math"
	btcecdsa "github.com/btcsuite/btcd/btcec/v2/ecdsa"
	sdk "github.com/cosmos/cosmos-sdk/types"
	"github.com/ethereum/go-ethereum/common"
	ethtypes "github.com/ethereum/go-ethereum/core/types"
	"golang.org/x/crypto/sha3"
)

// ---- C06: only sender-authorised transactions execute, each exactly once ------------------------------

// C06Model is the exactly-once / nonce-monotone model over the recorded history.
type C06Model struct {
	Seq      map[common.Address]uint64 // model sequence of every key-holding account
	Admitted map[common.Hash]int64     // eth tx hash -> height at which it passed admission
	AdmCosmo map[string]int64          // cosmos tx bytes hash -> height
	Keys     map[common.Address]bool
}

func NewC06Model() *C06Model {
	return &C06Model{Seq: map[common.Address]uint64{}, Admitted: map[common.Hash]int64{}, AdmCosmo: map[string]int64{}, Keys: map[common.Address]bool{}}
}

// recoverIndependent recovers the signer of an Ethereum tx with btcec (not go-ethereum's secp256k1) and
// reports the chain id the signature commits to (nil = unprotected).
func recoverIndependent(tx *ethtypes.Transaction) (addr common.Address, chainID *big.Int, protected bool, err error) {
	v, r, s := tx.RawSignatureValues()
	var recid byte
	switch tx.Type() {
	case ethtypes.LegacyTxType:
		if v.BitLen() > 64 {
			return addr, nil, false, fmt.Errorf("v too large")
		}
		vv := v.Uint64()
		if vv == 27 || vv == 28 {
			protected = false
			recid = byte(vv - 27)
		} else if vv >= 35 {
			protected = true
			chainID = new(big.Int).SetUint64((vv - 35) / 2)
			recid = byte((vv - 35) % 2)
		} else {
			return addr, nil, false, fmt.Errorf("bad v %d", vv)
		}
	default:
		protected = true
		chainID = tx.ChainId()
		if v.BitLen() > 8 || v.Uint64() > 1 {
			return addr, nil, false, fmt.Errorf("bad v %s", v)
		}
		recid = byte(v.Uint64())
	}
	var signer ethtypes.Signer
	if protected {
		signer = ethtypes.LatestSignerForChainID(chainID)
	} else {
		signer = ethtypes.HomesteadSigner{}
	}
	h := signer.Hash(tx) // signing hash: RLP of upstream go-ethereum, not evermint code
	sig := make([]byte, 65)
	sig[0] = 27 + recid
	r.FillBytes(sig[1:33])
	s.FillBytes(sig[33:65])
	pub, _, e := btcecdsa.RecoverCompact(sig, h[:])
	if e != nil {
		return addr, chainID, protected, e
	}
	ub := pub.SerializeUncompressed()
	k := sha3.NewLegacyKeccak256()
	k.Write(ub[1:])
	copy(addr[:], k.Sum(nil)[12:])
	// low-s / range rules of EIP-2 are go-ethereum's; recorded, not a verdict
	return addr, chainID, protected, nil
}

func (m *C06Model) seqBefore(v *View, a common.Address) uint64 {
	if ai := v.Acc[a]; ai != nil {
		return ai.Seq
	}
	return 0
}

// oracleC06Tx checks one transaction against the model and its observation.
func oracleC06Tx(w *World, rec *BlockRecord, t *TxInfo) {
	r := w.R
	m := w.C06
	if t.Obs == nil || t.Obs.After == nil {
		return
	}
	vb, va := ViewOf(t.Obs.Before), ViewOf(t.Obs.After)
	switch {
	case t.IsEthShape && t.HasEthEvent:
		if t.EthTx == nil {
			return
		}
		tx := t.EthTx
		signer, cid, prot, err := recoverIndependent(tx)
		if err != nil {
			r.Violate("C06", "admitted_bad_signature", map[string]string{"why": "unrecoverable"}, "admitted tx whose signature does not recover: %v", err)
		} else {
			if !prot {
				r.Violate("C06", "admitted_unprotected", nil, "an unprotected (pre-EIP-155) tx passed admission")
			} else if cid.Cmp(evmChainIDBig) != 0 {
				r.Violate("C06", "admitted_wrong_chain_id", nil, "tx signed for chain id %s passed admission on chain %d", cid, EvmChainID)
			}
			if signer != t.From {
				r.Violate("C06", "admitted_signer_mismatch", nil, "declared sender %s, signature recovers to %s", t.From.Hex(), signer.Hex())
			}
		}
		sb := m.seqBefore(vb, t.From)
		if tx.Nonce() != sb {
			r.Violate("C06", "admitted_wrong_nonce", nil, "tx nonce %d admitted while account sequence was %d", tx.Nonce(), sb)
		}
		if h, dup := m.Admitted[tx.Hash()]; dup {
			r.Violate("C06", "executed_twice", nil, "tx %s passed admission at height %d and again at %d", tx.Hash().Hex(), h, rec.Height)
		}
		m.Admitted[tx.Hash()] = rec.Height
		sa := m.seqBefore(va, t.From)
		if sa != sb+1 {
			r.Violate("C06", "nonce_not_advanced_by_one", map[string]string{"outcome": outcomeOf(t)}, "sender sequence %d -> %d after an admitted tx (outcome %s)", sb, sa, outcomeOf(t))
		}
		r.Probe("admitted_then_failed_keeps_nonce", !t.HasReceipt)
		checkOtherSeqs(r, m, vb, va, t.From)
	case t.IsEthShape:
		// not admitted: the empty-diff rule is C05's/C06(iii)
		if d := Diff(t.Obs.Before, t.Obs.After); len(d) > 0 {
			r.Violate("C06", "rejected_tx_changed_state", map[string]string{"store": d[0].Store}, "rejected Ethereum tx changed state: %s", d[0])
		}
	default:
		// Cosmos lane: admission = the signature verification decorator emitted its acc_seq event
		signerSeq := map[common.Address]uint64{}
		admitted := false
		if t.Res != nil {
			for _, e := range t.Res.Events {
				if e.Type == "tx" {
					if v, ok := attr(e, "acc_seq"); ok {
						admitted = true
						if i := strings.LastIndexByte(v, '/'); i > 0 {
							if a, err := sdk.AccAddressFromBech32(v[:i]); err == nil && len(a) == 20 {
								n, _ := strconv.ParseUint(v[i+1:], 10, 64)
								signerSeq[common.BytesToAddress(a)] = n
							}
						}
					}
				}
			}
		}
		if !admitted {
			if d := Diff(t.Obs.Before, t.Obs.After); len(d) > 0 {
				r.Violate("C06", "rejected_tx_changed_state", map[string]string{"store": d[0].Store}, "rejected Cosmos tx (code %d) changed state: %s", t.Res.Code, d[0])
			}
			return
		}
		key := string(sha(t.Bytes)) + fmt.Sprint(len(t.Bytes))
		if h, dup := m.AdmCosmo[string(t.Bytes)]; dup {
			r.Violate("C06", "executed_twice", map[string]string{"lane": "cosmos"}, "Cosmos tx %x passed admission at height %d and again at %d", key, h, rec.Height)
		}
		m.AdmCosmo[string(t.Bytes)] = rec.Height
		for a, n := range signerSeq {
			sb, sa := m.seqBefore(vb, a), m.seqBefore(va, a)
			if n != sb {
				r.Violate("C06", "admitted_wrong_nonce", map[string]string{"lane": "cosmos"}, "Cosmos tx signed with sequence %d admitted while account sequence was %d", n, sb)
			}
			if sa != sb+1 {
				r.Violate("C06", "nonce_not_advanced_by_one", map[string]string{"lane": "cosmos"}, "signer sequence %d -> %d after an admitted Cosmos tx", sb, sa)
			}
		}
		for a := range m.Keys {
			if _, isSigner := signerSeq[a]; isSigner {
				continue
			}
			if m.seqBefore(vb, a) != m.seqBefore(va, a) {
				r.Violate("C06", "foreign_nonce_changed", map[string]string{"lane": "cosmos"}, "sequence of %s changed by somebody else's tx", a.Hex())
			}
		}
	}
}

func checkOtherSeqs(r *RunCtx, m *C06Model, vb, va *View, except common.Address) {
	for a := range m.Keys {
		if a == except {
			continue
		}
		if m.seqBefore(vb, a) != m.seqBefore(va, a) {
			r.Violate("C06", "foreign_nonce_changed", nil, "sequence of %s changed by somebody else's tx", a.Hex())
		}
	}
}

// oracleC06Block: sequences never skip or move backwards between blocks (begin/end blockers never touch them).
func oracleC06Block(w *World, rec *BlockRecord) {
	if rec.Obs == nil || rec.Obs.AfterEnd == nil || rec.Obs.BeforeBgn == nil {
		return
	}
	m := w.C06
	va := ViewOf(rec.Obs.AfterEnd)
	vb := ViewOf(rec.Obs.BeforeBgn)
	for a := range m.Keys {
		prev, had := m.Seq[a]
		now := m.seqBefore(va, a)
		if had && now < prev {
			w.R.Violate("C06", "nonce_decreased", nil, "sequence of %s went %d -> %d", a.Hex(), prev, now)
		}
		if had && m.seqBefore(vb, a) != prev {
			w.R.Violate("C06", "nonce_changed_between_blocks", nil, "sequence of %s changed outside any block", a.Hex())
		}
		m.Seq[a] = now
	}
}

// ---- C09: base fee follows EIP-1559 and bounds executed prices ------------------------------------

// NextBaseFeeModel is the harness's own big-integer EIP-1559 step, written from the property statement.
func NextBaseFeeModel(b *big.Int, used uint64, limit uint64, minGasPrice sdkmath.LegacyDec) *big.Int {
	target := new(big.Int).SetUint64(limit / 2)
	u := new(big.Int).SetUint64(used)
	next := new(big.Int).Set(b)
	switch u.Cmp(target) {
	case 0:
	case 1:
		d := new(big.Int).Sub(u, target)
		d.Mul(d, b).Quo(d, target).Quo(d, big.NewInt(8))
		if d.Sign() == 0 {
			d.SetInt64(1)
		}
		next.Add(b, d)
	default:
		d := new(big.Int).Sub(target, u)
		d.Mul(d, b).Quo(d, target).Quo(d, big.NewInt(8))
		next.Sub(b, d)
		if next.Sign() < 0 {
			next.SetInt64(0)
		}
	}
	floor := minGasPrice.TruncateInt().BigInt()
	if next.Cmp(floor) < 0 {
		next.Set(floor)
	}
	return next
}

func oracleC09(w *World, rec *BlockRecord, txs []*TxInfo) {
	r := w.R
	o := rec.Obs
	if o == nil || o.BeforeBgn == nil || o.AfterEnd == nil {
		return
	}
	pb := feeParamsOf(o.BeforeBgn)
	pa := feeParamsOf(o.AfterEnd)
	cur := pb.BaseFee.BigInt()
	got := pa.BaseFee.BigInt()
	maxGas := w.C.maxGasAt(rec.Height)
	floor := pa.MinGasPrice.TruncateInt().BigInt()
	if got.Sign() < 0 {
		r.Violate("C09", "base_fee_negative", nil, "base fee %s", got)
	}
	if got.Cmp(floor) < 0 {
		r.Violate("C09", "base_fee_below_min_gas_price", nil, "next base fee %s below the integer part of the minimum gas price %s", got, floor)
	}
	// the fee_market event and the stored parameter agree
	for _, e := range rec.Res.Events {
		if e.Type == "fee_market" {
			if v, ok := attr(e, "base_fee"); ok && v != got.String() {
				r.Violate("C09", "event_vs_state", nil, "fee_market event says %s, state says %s", v, got)
			}
		}
	}
	// params may be changed by governance inside the block: then the step is not comparable
	paramsChanged := !pb.MinGasPrice.Equal(pa.MinGasPrice) || w.paramMsgInBlock(txs)
	for _, e := range rec.Res.Events {
		if e.Type == "active_proposal" {
			// a governance proposal was executed in this block's end blocker (before the fee market's): the step is not comparable
			paramsChanged = true
			r.Probe("governance_proposal_executed_in_block", true)
		}
	}
	if maxGas == -1 && !paramsChanged {
		// unlimited block gas: the gas target is "half of infinity", usage is always below it, so the base fee moves
		// down by an eighth (the statement's formula with (target - used) / target -> 1; an implementation that
		// represents infinity by the largest integer loses at most one unit before the division), floor permitting
		pe := feeParamsOf(o.BeforeEnd)
		b := pe.BaseFee.BigInt()
		lo, hi := new(big.Int).Set(b), new(big.Int).Set(b)
		if b.Sign() > 0 {
			lo.Sub(b, new(big.Int).Quo(b, big.NewInt(8)))
			hi.Sub(b, new(big.Int).Quo(new(big.Int).Sub(b, big.NewInt(1)), big.NewInt(8)))
		}
		// ... or it takes the largest integer as the limit and the gas used into account: the same formula with
		// target = (2^64-1)/2, which moves a little less
		if m := NextBaseFeeModel(b, o.EndGasUsed, ^uint64(0), pe.MinGasPrice); m.Cmp(hi) > 0 {
			hi.Set(m)
		}
		fl := pe.MinGasPrice.TruncateInt().BigInt()
		if lo.Cmp(fl) < 0 {
			lo.Set(fl)
		}
		if hi.Cmp(fl) < 0 {
			hi.Set(fl)
		}
		if got.Cmp(lo) < 0 || got.Cmp(hi) > 0 {
			r.Violate("C09", "base_fee_step", map[string]string{"dir": "unlimited_block_gas"},
				"base fee %s, unlimited block gas, min gas price %s: next base fee %s, EIP-1559 moves it down by (nearly) an eighth: [%s, %s]", pe.BaseFee, pe.MinGasPrice, got, lo, hi)
		}
		r.Probe("base_fee_step_with_unlimited_block_gas", b.Cmp(big.NewInt(8)) >= 0)
	}
	if maxGas > 1 && !paramsChanged { // a gas target of zero (max gas 0 or 1) leaves the EIP-1559 step undefined: only "never fails" and the bounds apply
		// base fee at end-blocker entry (a params message in the block could have changed it)
		pe := feeParamsOf(o.BeforeEnd)
		want := NextBaseFeeModel(pe.BaseFee.BigInt(), o.EndGasUsed, uint64(maxGas), pe.MinGasPrice)
		if want.Cmp(got) != 0 {
			r.Violate("C09", "base_fee_step", map[string]string{"dir": cmpWord(o.EndGasUsed, uint64(maxGas)/2)},
				"base fee %s, gas used %d, max gas %d, min gas price %s: next base fee %s, EIP-1559 says %s", pe.BaseFee, o.EndGasUsed, maxGas, pe.MinGasPrice, got, want)
		}
		r.Probe("base_fee_step_up", o.EndGasUsed > uint64(maxGas)/2)
		r.Probe("base_fee_step_down", o.EndGasUsed < uint64(maxGas)/2 && cur.Sign() > 0)
		r.Probe("base_fee_clamped_by_min_gas_price", want.Cmp(floor) == 0 && floor.Sign() > 0)
		// harness's own gas-used figure vs. the block gas meter (recorded, not a verdict)
		var sum uint64
		for _, t := range txs {
			if t.Res != nil && t.Res.GasUsed > 0 {
				g := uint64(t.Res.GasUsed)
				if t.Res.GasWanted > 0 && g > uint64(t.Res.GasWanted) {
					g = uint64(t.Res.GasWanted)
				}
				sum += g
			}
		}
		if sum > uint64(maxGas) {
			sum = uint64(maxGas)
		}
		if sum != o.EndGasUsed {
			r.Cross["c09:own_gas_sum_vs_block_meter"]++
		}
	} else if maxGas <= 1 {
		r.Probe("unlimited_or_zero_target_block_gas", true)
	}
	// admission bound: no executed tx below max(base fee, floor(min gas price))
	for _, t := range txs {
		if t.Obs == nil {
			continue
		}
		p := feeParamsOf(t.Obs.Before)
		bound := p.BaseFee.BigInt()
		if f := p.MinGasPrice.TruncateInt().BigInt(); f.Cmp(bound) > 0 {
			bound = f
		}
		r.At(rec.Height, t.Pos)
		if t.IsEthShape && t.HasEthEvent && t.EthTx != nil {
			price := EffectivePrice(t.EthTx, p.BaseFee.BigInt())
			if price.Cmp(bound) < 0 {
				r.Violate("C09", "executed_below_min_price", map[string]string{"lane": "evm"}, "tx with effective price %s executed while base fee %s / min gas price %s", price, p.BaseFee, p.MinGasPrice)
			}
		}
	}
	r.At(rec.Height, -1)
}

func cmpWord(a, b uint64) string {
	switch {
	case a > b:
		return "above_target"
	case a < b:
		return "below_target"
	}
	return "at_target"
}

func (w *World) paramMsgInBlock(txs []*TxInfo) bool {
	for _, t := range txs {
		if t.Res != nil && t.Res.Code == 0 && !t.IsEthShape && bytes.Contains(t.Bytes, []byte("MsgUpdateParams")) {
			return true
		}
	}
	return false
}

// ---- C15: protected accounts and vesting-locked coins -----------------------------------------------

func oracleC15(w *World, rec *BlockRecord, t *TxInfo) {
	r := w.R
	if !t.IsEthShape || t.Obs == nil || t.Obs.After == nil {
		return
	}
	vb, va := ViewOf(t.Obs.Before), ViewOf(t.Obs.After)
	blockTime := rec.Req.Time
	// an account that comes into being inside the transaction (paid by the bank module through a precompile) is not in
	// the before-view: for the code-less sink of a self-witnessing transaction the bank module's own events say what it
	// was paid, and it can spend nothing - so it must exist afterwards and hold exactly that
	if t.EthTx != nil && w.ByHash != nil && t.HasReceipt && !t.Rc.HasErr {
		if snt := w.ByHash[t.EthTx.Hash()]; snt != nil && snt.Wit != nil && vb.Acc[snt.Wit.Sink] == nil {
			if paid, bad := sinkTransferEvents(t.Res, snt.Wit.Sink); bad == "" && paid != 0 {
				r.Count("o:c15_account_funded_in_tx_checked")
				if va.Acc[snt.Wit.Sink] == nil || va.Balance(snt.Wit.Sink, BaseDenom).Cmp(new(big.Int).SetUint64(paid)) != 0 {
					r.Violate("C15", "non_empty_account_deleted", map[string]string{"funded_in_tx": "true"}, "account %s was paid %d by the bank module inside the transaction (its events say so) and cannot spend, yet after the transaction it %s", snt.Wit.Sink.Hex(), paid, map[bool]string{true: "does not exist", false: "holds " + va.Balance(snt.Wit.Sink, BaseDenom).String()}[va.Acc[snt.Wit.Sink] == nil])
				}
			}
		}
	}
	bt := blockTime.Unix()
	for _, a := range vb.Addresses() {
		b := vb.Acc[a]
		if b == nil {
			continue
		}
		protected := ""
		if b.IsModule {
			protected = "module"
		} else if b.Vesting != nil && b.EndTime > bt {
			protected = "vesting_unexpired"
		} else if b.Vesting != nil && b.EndTime == 0 {
			protected = "vesting_permanent"
		}
		af := va.Acc[a]
		if protected != "" {
			r.Probe("protected_account_present", true)
			switch {
			case af == nil:
				r.Violate("C15", "protected_account_deleted", map[string]string{"kind": protected}, "%s account %s deleted by an Ethereum tx at block time %d (end time %d)", protected, a.Hex(), bt, b.EndTime)
			case af.Type != b.Type || af.AccNum != b.AccNum:
				r.Violate("C15", "protected_account_replaced", map[string]string{"kind": protected}, "%s account %s replaced: %s#%d -> %s#%d", protected, a.Hex(), b.Type, b.AccNum, af.Type, af.AccNum)
			case b.Vesting != nil && (!af.Vesting.GetOriginalVesting().Equal(b.Vesting.GetOriginalVesting()) || af.EndTime != b.EndTime || af.Vesting.GetStartTime() != b.Vesting.GetStartTime()):
				r.Violate("C15", "vesting_schedule_changed", nil, "vesting schedule of %s changed", a.Hex())
			}
		}
		if b.Vesting != nil && af != nil && af.Vesting != nil {
			// locked coins stay locked
			lockedB := b.Vesting.LockedCoins(blockTime)
			lockedA := af.Vesting.LockedCoins(blockTime)
			for _, c := range lockedB {
				okBefore := vb.Balance(a, c.Denom).Cmp(c.Amount.BigInt()) >= 0
				la := lockedA.AmountOf(c.Denom).BigInt()
				if okBefore && va.Balance(a, c.Denom).Cmp(la) < 0 {
					r.Violate("C15", "locked_coins_spent", nil, "vesting account %s holds %s%s after the tx but %s are still locked", a.Hex(), va.Balance(a, c.Denom), c.Denom, la)
				}
			}
			r.Probe("vesting_account_with_locked_coins", !lockedB.IsZero())
		}
		if af == nil && protected == "" {
			// deleted: must have been deletable
			hadCode := len(vb.CodeHash[a]) > 0
			empty := b.Seq == 0 && len(vb.Storage[a]) == 0 && !hadCode && len(nonZero(vb.Bal[a])) == 0
			// a code-less account at the address this very tx creates a contract at may be destroyed by that contract's
			// constructor (created and self-destructed within the tx): it did self-destruct
			createdHere := t.EthTx != nil && t.EthTx.To() == nil && ethcrypto.CreateAddress(t.From, t.EthTx.Nonce()) == a
			if !hadCode && !empty && !createdHere {
				r.Violate("C15", "non_empty_account_deleted", nil, "account %s (nonce %d, %d storage keys, balances %v) deleted without self-destruct", a.Hex(), b.Seq, len(vb.Storage[a]), nonZero(vb.Bal[a]))
			}
			r.Probe("account_deleted", true)
			// removed completely
			if len(nonZero(va.Bal[a])) > 0 || len(va.CodeHash[a]) > 0 || len(va.Storage[a]) > 0 {
				r.Violate("C15", "deleted_account_left_remains", nil, "deleted account %s still has balances %v / code hash %x / %d storage keys", a.Hex(), nonZero(va.Bal[a]), va.CodeHash[a], len(va.Storage[a]))
			}
		}
	}
}

func nonZero(m map[string]*big.Int) map[string]string {
	out := map[string]string{}
	for d, x := range m {
		if x.Sign() != 0 {
			out[d] = x.String()
		}
	}
	return out
}
