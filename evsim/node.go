package evsim

import (
	"bytes"
	"fmt"
	"runtime/debug"
	"sort"

	"cosmossdk.io/log"
	"cosmossdk.io/store"
	pruningtypes "cosmossdk.io/store/pruning/types"
	storetypes "cosmossdk.io/store/types"
	chainapp "github.com/EscanBE/evermint/v12/app"
	abci "github.com/cometbft/cometbft/abci/types"
	sdkdb "github.com/cosmos/cosmos-db"
	"github.com/cosmos/cosmos-sdk/baseapp"
	sdk "github.com/cosmos/cosmos-sdk/types"
)

// NodeOpts is the node-local configuration vector (C01: results must not depend on it).
type NodeOpts struct {
	MinGasPrices   string   `json:"min_gas_prices,omitempty"`
	Pruning        string   `json:"pruning,omitempty"` // default | nothing | everything
	IAVLCache      int      `json:"iavl_cache,omitempty"`
	IAVLNoFastNode bool     `json:"iavl_no_fast,omitempty"`
	InterBlock     bool     `json:"inter_block_cache,omitempty"`
	Trace          bool     `json:"trace,omitempty"`
	IndexEvents    []string `json:"index_events,omitempty"`
	InvCheckPeriod uint     `json:"inv_check_period,omitempty"`
	EvmTracer      string   `json:"evm_tracer,omitempty"`
	QueryGasLimit  uint64   `json:"query_gas_limit,omitempty"`
	Telemetry      bool     `json:"telemetry,omitempty"` // app.toml telemetry.enabled (a process-wide switch of the SDK, set while this node runs)
}

type mapAppOpts map[string]interface{}

func (m mapAppOpts) Get(k string) interface{} { return m[k] }

// KV is one store entry.
type KV struct {
	K, V []byte
}

// Dump is a full copy of a set of stores, keys in iteration (ascending) order.
type Dump struct {
	Stores map[string][]KV
}

// TxObs is what the pass-through ante observer saw for one transaction that reached the ante handler.
type TxObs struct {
	TxBytes []byte
	Before  *Dump
	AnteErr error
	// filled by the block driver: the next observation point's dump
	After *Dump
}

// BlockObs collects the observation points of one FinalizeBlock call.
type BlockObs struct {
	Height     int64
	BeforeBgn  *Dump    // before the begin blocker
	Txs        []*TxObs // in the order their ante handler ran
	BeforeEnd  *Dump    // before the end blocker
	BlockGasAt []uint64 // block gas meter consumed at each tx obs
	EndGasUsed uint64   // block gas meter at end blocker entry (GasConsumedToLimit)
	EndGasRaw  uint64
	AfterEnd   *Dump // at precommit (after the end blocker)
}

// PanicInfo records a panic that escaped an ABCI entry point.
type PanicInfo struct {
	Phase string
	Value string
	Stack string
}

// Node is one evermint application instance over a (simulated) disk.
type Node struct {
	Name string
	DB   sdkdb.DB
	Opts NodeOpts
	App  *chainapp.Evermint

	// observation
	Observe   bool
	DumpAll   bool // dump every persistent store (else: the consensus-relevant subset)
	cur       *BlockObs
	LastObs   *BlockObs
	PreBegin  func(ctx sdk.Context) // one-shot, runs at the start of the next block on the block's context
	storeKeys []storeRef
	Opens     int
}

type storeRef struct {
	name string
	key  storetypes.StoreKey
}

// stores dumped by default at every observation point
var defaultDumpStores = map[string]bool{
	"acc": true, "bank": true, "evm": true, "feemarket": true, "cpc": true, "vauth": true,
	"staking": true, "distribution": true, "authz": true, "t:transient_evm": true,
}

func NewNode(name string, db sdkdb.DB, opts NodeOpts) *Node {
	n := &Node{Name: name, DB: db, Opts: opts, Observe: true}
	n.Open()
	return n
}

// Open (re)constructs the application from the node's DB: this is process start.
func (n *Node) Open() {
	n.Opens++
	enc := EncodingConfig()
	var bopts []func(*baseapp.BaseApp)
	bopts = append(bopts, baseapp.SetChainID(ChainID))
	if n.Opts.MinGasPrices != "" {
		bopts = append(bopts, baseapp.SetMinGasPrices(n.Opts.MinGasPrices))
	}
	switch n.Opts.Pruning {
	case "nothing":
		bopts = append(bopts, baseapp.SetPruning(pruningtypes.NewPruningOptions(pruningtypes.PruningNothing)))
	case "everything":
		bopts = append(bopts, baseapp.SetPruning(pruningtypes.NewPruningOptions(pruningtypes.PruningEverything)))
	case "custom":
		bopts = append(bopts, baseapp.SetPruning(pruningtypes.NewCustomPruningOptions(3, 10)))
	default:
		bopts = append(bopts, baseapp.SetPruning(pruningtypes.NewPruningOptions(pruningtypes.PruningDefault)))
	}
	if n.Opts.IAVLCache != 0 {
		sz := n.Opts.IAVLCache
		if sz < 0 {
			sz = 0
		}
		bopts = append(bopts, baseapp.SetIAVLCacheSize(sz))
	}
	if n.Opts.IAVLNoFastNode {
		bopts = append(bopts, baseapp.SetIAVLDisableFastNode(true))
	}
	if n.Opts.InterBlock {
		bopts = append(bopts, baseapp.SetInterBlockCache(store.NewCommitKVStoreCacheManager()))
	}
	if n.Opts.Trace {
		bopts = append(bopts, baseapp.SetTrace(true))
	}
	if len(n.Opts.IndexEvents) > 0 {
		bopts = append(bopts, baseapp.SetIndexEvents(n.Opts.IndexEvents))
	}
	if n.Opts.QueryGasLimit != 0 {
		bopts = append(bopts, baseapp.SetQueryGasLimit(n.Opts.QueryGasLimit))
	}
	appOpts := mapAppOpts{
		"home":       "/nonexistent/evsim-home",
		"evm.tracer": n.Opts.EvmTracer,
	}
	app := chainapp.NewEvermint(
		log.NewNopLogger(), n.DB, nil,
		false, // load latest below, after the observers are installed
		map[int64]bool{}, "/nonexistent/evsim-home", n.Opts.InvCheckPeriod, enc, appOpts, bopts...,
	)
	n.App = app
	n.storeKeys = n.storeKeys[:0]
	for name, k := range app.GetKVStoreKey() {
		n.storeKeys = append(n.storeKeys, storeRef{name, k})
	}
	for name, k := range app.GetTransientStoreKey() {
		n.storeKeys = append(n.storeKeys, storeRef{"t:" + name, k})
	}
	sort.Slice(n.storeKeys, func(i, j int) bool { return n.storeKeys[i].name < n.storeKeys[j].name })

	// pass-through observers; the wrapped functions are the application's own
	origAnte := app.AnteHandler()
	app.SetAnteHandler(func(ctx sdk.Context, tx sdk.Tx, simulate bool) (sdk.Context, error) {
		if !n.Observe || n.cur == nil || ctx.ExecMode() != sdk.ExecModeFinalize {
			return origAnte(ctx, tx, simulate)
		}
		o := &TxObs{TxBytes: append([]byte(nil), ctx.TxBytes()...), Before: n.DumpCtx(ctx)}
		n.cur.Txs = append(n.cur.Txs, o)
		if bg := ctx.BlockGasMeter(); bg != nil {
			n.cur.BlockGasAt = append(n.cur.BlockGasAt, bg.GasConsumed())
		} else {
			n.cur.BlockGasAt = append(n.cur.BlockGasAt, 0)
		}
		newCtx, err := origAnte(ctx, tx, simulate)
		o.AnteErr = err
		return newCtx, err
	})
	app.SetBeginBlocker(func(ctx sdk.Context) (sdk.BeginBlock, error) {
		if n.Observe && n.cur != nil {
			n.cur.BeforeBgn = n.DumpCtx(ctx)
		}
		if f := n.PreBegin; f != nil {
			// a scripted action on the block's own context (what an upgrade handler would do), or a read-only probe
			n.PreBegin = nil
			f(ctx)
		}
		return app.BeginBlocker(ctx)
	})
	app.SetEndBlocker(func(ctx sdk.Context) (sdk.EndBlock, error) {
		if n.Observe && n.cur != nil {
			n.cur.BeforeEnd = n.DumpCtx(ctx)
			if bg := ctx.BlockGasMeter(); bg != nil {
				n.cur.EndGasUsed = bg.GasConsumedToLimit()
				n.cur.EndGasRaw = bg.GasConsumed()
			}
		}
		return app.EndBlocker(ctx)
	})
	app.SetPrecommiter(func(ctx sdk.Context) {
		if n.Observe && n.cur != nil {
			n.cur.AfterEnd = n.DumpCtx(ctx)
		}
	})
	if err := app.LoadLatestVersion(); err != nil {
		panic(fmt.Errorf("load latest version: %w", err))
	}
}

// DumpCtx copies the selected stores as seen through ctx. It reads the multistore directly: no gas
// meter, no events, no writes.
func (n *Node) DumpCtx(ctx sdk.Context) *Dump {
	return n.dumpMS(ctx.MultiStore())
}

func (n *Node) dumpMS(ms storetypes.MultiStore) *Dump {
	d := &Dump{Stores: make(map[string][]KV, len(n.storeKeys))}
	for _, sr := range n.storeKeys {
		if !n.DumpAll && !defaultDumpStores[sr.name] {
			continue
		}
		if n.DumpAll && sr.name != "t:transient_evm" && len(sr.name) > 2 && sr.name[:2] == "t:" {
			continue
		}
		st := ms.GetKVStore(sr.key)
		it := st.Iterator(nil, nil)
		var kvs []KV
		for ; it.Valid(); it.Next() {
			kvs = append(kvs, KV{append([]byte(nil), it.Key()...), append([]byte(nil), it.Value()...)})
		}
		it.Close()
		d.Stores[sr.name] = kvs
	}
	return d
}

// DumpCommitted dumps the last committed state (through a cache wrap of the root multistore).
func (n *Node) DumpCommitted() *Dump {
	return n.dumpMS(n.App.CommitMultiStore().CacheMultiStore())
}

// StoreNames returns the sorted names of a dump's stores.
func (d *Dump) StoreNames() []string {
	names := make([]string, 0, len(d.Stores))
	for k := range d.Stores {
		names = append(names, k)
	}
	sort.Strings(names)
	return names
}

// Get returns the value under key in store, or nil.
func (d *Dump) Get(storeName string, key []byte) []byte {
	kvs := d.Stores[storeName]
	i := sort.Search(len(kvs), func(i int) bool { return bytes.Compare(kvs[i].K, key) >= 0 })
	if i < len(kvs) && bytes.Equal(kvs[i].K, key) {
		return kvs[i].V
	}
	return nil
}

// Prefix returns the entries of a store whose key starts with p.
func (d *Dump) Prefix(storeName string, p []byte) []KV {
	kvs := d.Stores[storeName]
	i := sort.Search(len(kvs), func(i int) bool { return bytes.Compare(kvs[i].K, p) >= 0 })
	j := i
	for j < len(kvs) && bytes.HasPrefix(kvs[j].K, p) {
		j++
	}
	return kvs[i:j]
}

// DiffEntry is one changed key.
type DiffEntry struct {
	Store    string
	Key      []byte
	Old, New []byte // nil = absent
}

// Diff lists the keys whose value differs between a and b.
func Diff(a, b *Dump) []DiffEntry {
	var out []DiffEntry
	names := a.StoreNames()
	for _, nme := range b.StoreNames() {
		if _, ok := a.Stores[nme]; !ok {
			names = append(names, nme)
		}
	}
	sort.Strings(names)
	for _, s := range names {
		x, y := a.Stores[s], b.Stores[s]
		i, j := 0, 0
		for i < len(x) || j < len(y) {
			switch {
			case j >= len(y) || (i < len(x) && bytes.Compare(x[i].K, y[j].K) < 0):
				out = append(out, DiffEntry{s, x[i].K, x[i].V, nil})
				i++
			case i >= len(x) || bytes.Compare(x[i].K, y[j].K) > 0:
				out = append(out, DiffEntry{s, y[j].K, nil, y[j].V})
				j++
			default:
				if !bytes.Equal(x[i].V, y[j].V) {
					out = append(out, DiffEntry{s, x[i].K, x[i].V, y[j].V})
				}
				i++
				j++
			}
		}
	}
	return out
}

func (e DiffEntry) String() string {
	return fmt.Sprintf("%s/%x: %x -> %x", e.Store, e.Key, e.Old, e.New)
}

// ---- ABCI entry points with panic capture ------------------------------------------------------

func capture(phase string, p **PanicInfo) {
	if r := recover(); r != nil {
		*p = &PanicInfo{Phase: phase, Value: fmt.Sprint(r), Stack: string(debug.Stack())}
	}
}

func (n *Node) InitChain(req *abci.RequestInitChain) (res *abci.ResponseInitChain, err error, pi *PanicInfo) {
	defer capture("InitChain", &pi)
	res, err = n.App.InitChain(req)
	return
}

func (n *Node) FinalizeBlock(req *abci.RequestFinalizeBlock) (res *abci.ResponseFinalizeBlock, err error, pi *PanicInfo) {
	defer capture("FinalizeBlock", &pi)
	if n.Observe {
		n.cur = &BlockObs{Height: req.Height}
	}
	res, err = n.App.FinalizeBlock(req)
	return
}

func (n *Node) Commit() (res *abci.ResponseCommit, err error, pi *PanicInfo) {
	defer capture("Commit", &pi)
	res, err = n.App.Commit()
	if n.Observe && n.cur != nil {
		// link After dumps
		o := n.cur
		for i, t := range o.Txs {
			if i+1 < len(o.Txs) {
				t.After = o.Txs[i+1].Before
			} else {
				t.After = o.BeforeEnd
			}
		}
		n.LastObs = o
		n.cur = nil
	}
	return
}

func (n *Node) CheckTx(req *abci.RequestCheckTx) (res *abci.ResponseCheckTx, err error, pi *PanicInfo) {
	defer capture("CheckTx", &pi)
	res, err = n.App.CheckTx(req)
	return
}

func (n *Node) PrepareProposal(req *abci.RequestPrepareProposal) (res *abci.ResponsePrepareProposal, err error, pi *PanicInfo) {
	defer capture("PrepareProposal", &pi)
	res, err = n.App.PrepareProposal(req)
	return
}

func (n *Node) ProcessProposal(req *abci.RequestProcessProposal) (res *abci.ResponseProcessProposal, err error, pi *PanicInfo) {
	defer capture("ProcessProposal", &pi)
	res, err = n.App.ProcessProposal(req)
	return
}

func (n *Node) Query(req *abci.RequestQuery) (res *abci.ResponseQuery, err error, pi *PanicInfo) {
	defer capture("Query", &pi)
	res, err = n.App.Query(nil, req)
	return
}
