package evsim

import (
	"bytes"
	sdkmath "cosmossdk.io/math"
	"encoding/hex"
	"encoding/json"
	"fmt"
	banktypes "github.com/cosmos/cosmos-sdk/x/bank/types"
	"math/rand/v2"
	"strings"
	"time"

	"github.com/EscanBE/evermint/v12/x/cpc"
	cpctypes "github.com/EscanBE/evermint/v12/x/cpc/types"
	"github.com/EscanBE/evermint/v12/x/evm"
	evmtypes "github.com/EscanBE/evermint/v12/x/evm/types"
	"github.com/EscanBE/evermint/v12/x/feemarket"
	"github.com/EscanBE/evermint/v12/x/vauth"
	vauthtypes "github.com/EscanBE/evermint/v12/x/vauth/types"
	abci "github.com/cometbft/cometbft/abci/types"
	sdkdb "github.com/cosmos/cosmos-db"
	sdk "github.com/cosmos/cosmos-sdk/types"
	ethcrypto "github.com/ethereum/go-ethereum/crypto"
)

// ---- C18: genesis export / import round-trips the custom modules' state ------------------------------
//
// At scripted heights and at the end of a history: a freshly re-opened instance over the node's disk exports
// the application state (what the export command does); a new node on an empty disk is initialised from that
// export; the state it holds right after InitChain (observed at the start of its first block, before any
// begin blocker) is compared store by store with the exporter's committed state for the four custom modules,
// and the modules' ExportGenesis on the imported state is compared with the first export.

func keyWallet(w *World, sym string) *Wallet {
	switch {
	case strings.HasPrefix(sym, "fresh"):
		var i int
		fmt.Sscanf(sym[5:], "%d", &i)
		return NewWallet("fresh", i)
	case strings.HasPrefix(sym, "vest"):
		var i int
		fmt.Sscanf(sym[4:], "%d", &i)
		return NewWallet("vest", i)
	case strings.HasPrefix(sym, "w"):
		var i int
		fmt.Sscanf(sym[1:], "%d", &i)
		return w.wallet(i)
	}
	return w.wallet(0)
}

func init() {
	// vauth_proof: W submitter, To account to prove (a key-holding symbol), Note = signature variation
	msgBuilders["vauth_proof"] = func(w *World, op *Op) []sdk.Msg {
		acc := keyWallet(w, op.To)
		signer := acc
		msgText := vauthtypes.MessageToSign
		switch op.Note {
		case "wrongkey":
			signer = w.wallet(op.W + 2)
		case "wrongmsg":
			msgText = "vauth "
		case "acc_long":
			signer = w.wallet(op.W) // the submitter proves its own key ...
		}
		sig, err := ethcrypto.Sign(ethcrypto.Keccak256([]byte(msgText)), signer.ECDSA)
		if err != nil {
			panic(err)
		}
		switch op.Note {
		case "v27":
			sig[64] += 27
		case "short":
			sig = sig[:64]
		case "long":
			sig = append(sig, 0)
		case "flip":
			sig[10] ^= 1
		}
		hx := "0x" + hex.EncodeToString(sig)
		if op.Note == "upper" {
			hx = "0x" + strings.ToUpper(hex.EncodeToString(sig))
		}
		if op.Note == "no0x" {
			hx = hex.EncodeToString(sig)
		}
		account := acc.Bech32()
		switch op.Note {
		case "acc_upper": // the other valid spelling of the same bech32 address
			account = strings.ToUpper(account)
		case "acc_long": // ... for an "address" of 40 bytes: the target's 20 bytes followed by its own
			account = sdk.AccAddress(append(append([]byte{}, acc.Addr.Bytes()...), w.wallet(op.W).Addr.Bytes()...)).String()
		case "acc_mixed": // invalid spelling
			account = strings.ToUpper(account[:len(account)/2]) + account[len(account)/2:]
		}
		msgs := []sdk.Msg{&vauthtypes.MsgSubmitProofExternalOwnedAccount{Submitter: w.wallet(op.W).Bech32(), Account: account, Signature: hx}}
		if op.Hex == "failsend" {
			// ... followed, in the same tx, by a message that fails: the whole tx is reverted, the proof with it
			msgs = append(msgs, &banktypes.MsgSend{FromAddress: w.wallet(op.W).Bech32(), ToAddress: w.wallet(op.W + 1).Bech32(),
				Amount: sdk.NewCoins(sdk.NewCoin(BaseDenom, sdkmath.NewIntFromBigInt(mustBig("999999999999999999999999999999"))))})
		}
		return msgs
	}
	opHandlers["export"] = func(w *World, op *Op) { c18RoundTrip(w) }
	Arms["C18"] = &Arm{Gen: genC18, Run: runPc()}
}

func c18Class(store string, key []byte) string {
	if len(key) == 0 {
		return store + ":empty_key"
	}
	switch store {
	case "evm":
		switch key[0] {
		case 1:
			return "contract_code"
		case 2:
			return "contract_storage"
		case 3:
			return "evm_params"
		case 4:
			return "contract_code_hash"
		case 5:
			return "-block_hash"
		case 6:
			return "-chain_id"
		}
	case "feemarket":
		return "feemarket_params_and_base_fee"
	case "cpc":
		switch key[0] {
		case 1:
			return "precompile_params"
		case 2:
			return "precompile_metadata"
		case 3:
			return "precompile_denom_index"
		case 4:
			return "precompile_allowances"
		}
	case "vauth":
		return "ownership_proofs"
	}
	return "-" + store + ":other"
}

func allZero(b []byte) bool {
	for _, x := range b {
		if x != 0 {
			return false
		}
	}
	return true
}

// c18RoundTrip performs one export -> import -> compare cycle on the current committed state.
func c18RoundTrip(w *World) {
	r := w.R
	if w.C.Halted || w.C.Height < 1 {
		return
	}
	r.At(w.C.Height, -1)
	r.Count("o:export_import_round_trips")
	// 1. export from a fresh instance over the same disk
	exporter := &Node{Name: "exporter", DB: w.DB, Opts: NodeOpts{}, Observe: false, DumpAll: true}
	var exp struct {
		AppState json.RawMessage
		Height   int64
	}
	var initReq *abci.RequestInitChain
	var prim *Dump
	func() {
		defer func() {
			if x := recover(); x != nil {
				r.Violate("C18", "export_failed", map[string]string{"how": "panic"}, "export panicked: %v", x)
			}
		}()
		exporter.Open()
		prim = exporter.DumpCommitted()
		e, err := exporter.App.ExportAppStateAndValidators(false, nil, nil)
		if err != nil {
			r.Violate("C18", "export_failed", map[string]string{"how": "error"}, "export failed: %v", err)
			return
		}
		exp.AppState, exp.Height = e.AppState, e.Height
		cp := e.ConsensusParams
		initReq = &abci.RequestInitChain{Time: w.C.Time, ChainId: ChainID, ConsensusParams: &cp, AppStateBytes: e.AppState, InitialHeight: e.Height}
	}()
	if initReq == nil {
		return
	}
	// 2. a node restored from the export
	imp := NewNode("imported", sdkdb.NewMemDB(), NodeOpts{})
	imp.DumpAll = true
	if _, err, pi := imp.InitChain(initReq); err != nil || pi != nil {
		msg := fmt.Sprint(err)
		if pi != nil {
			msg = pi.Value
		}
		r.Violate("C18", "import_failed", map[string]string{"why": errClass(msg)}, "InitChain from the exported state failed: %s", clip(msg))
		return
	}
	second := map[string]json.RawMessage{}
	imp.PreBegin = func(ctx sdk.Context) {
		cdc := EncodingConfig().Codec
		second["evm"] = cdc.MustMarshalJSON(evm.ExportGenesis(ctx, imp.App.EvmKeeper))
		second["feemarket"] = cdc.MustMarshalJSON(feemarket.ExportGenesis(ctx, imp.App.FeeMarketKeeper))
		g := cpc.ExportGenesis(ctx, imp.App.CPCKeeper)
		second["cpc"] = cdc.MustMarshalJSON(&g)
		second["vauth"] = vauth.NewAppModule(cdc, imp.App.VAuthKeeper).ExportGenesis(ctx, cdc)
	}
	prop := w.G.Validators[0].ConsPub.Address()
	_, err, pi := imp.FinalizeBlock(&abci.RequestFinalizeBlock{Height: exp.Height, Time: w.C.Time.Add(5 * time.Second), ProposerAddress: prop, Hash: bytes.Repeat([]byte{7}, 32), NextValidatorsHash: bytes.Repeat([]byte{8}, 32)})
	if err != nil || pi != nil {
		r.Cross["c18:first_block_after_import_failed"]++
	}
	if imp.cur == nil || imp.cur.BeforeBgn == nil {
		r.Violate("C18", "import_failed", map[string]string{"why": "no_state"}, "the imported node never reached its first block: %v %v", err, pi)
		return
	}
	got := imp.cur.BeforeBgn
	// 3. compare the custom modules' stores
	vp := ViewOf(prim)
	seen := map[string]bool{}
	for _, st := range []string{"evm", "feemarket", "cpc", "vauth"} {
		a := &Dump{Stores: map[string][]KV{st: prim.Stores[st]}}
		b := &Dump{Stores: map[string][]KV{st: got.Stores[st]}}
		for _, d := range Diff(a, b) {
			class := c18Class(st, d.Key)
			if class == "precompile_metadata" {
				// which kind of contract: the loss of one kind must not hide the loss of another
				var m cpctypes.CustomPrecompiledContractMeta
				v := d.Old
				if v == nil {
					v = d.New
				}
				if err := EncodingConfig().Codec.Unmarshal(v, &m); err == nil {
					class += "_" + map[uint32]string{1: "erc20", 2: "staking", 3: "bech32"}[m.CustomPrecompiledType]
				}
			}
			if class == "contract_storage" {
				// a slot reads zero whether its entry is absent or holds zeroes
				if (d.Old == nil || allZero(d.Old)) && (d.New == nil || allZero(d.New)) {
					r.Probe("zero_valued_slot_round_trip", true)
					continue
				}
				if len(d.Key) >= 21 {
					var ad [20]byte
					copy(ad[:], d.Key[1:21])
					if len(vp.CodeHash[ad]) == 0 {
						r.Cross["c18:storage_of_code_less_account_not_round_tripped"]++
						continue
					}
				}
			}
			if class == "contract_code" && d.New == nil && len(d.Key) == 33 {
				// code is stored by hash and shared: the code of a destroyed contract stays behind unreferenced. Only code
				// that some account's code hash still points to is state.
				referenced := false
				for _, ch := range vp.CodeHash {
					if bytes.Equal(ch, d.Key[1:]) {
						referenced = true
						break
					}
				}
				if !referenced {
					r.Cross["c18:unreferenced_code_not_exported"]++
					continue
				}
			}
			if strings.HasPrefix(class, "-") {
				r.Cross["c18:diff"+class]++
				continue
			}
			dir := "changed"
			if d.New == nil {
				dir = "lost"
			} else if d.Old == nil {
				dir = "appeared"
			}
			k := class + "/" + dir
			if seen[k] {
				continue
			}
			seen[k] = true
			r.Violate("C18", "state_differs_after_import", map[string]string{"what": class, "how": dir}, "%s: key %x: exported node has %x, the node restored from the export has %x", class, d.Key, clipB(d.Old), clipB(d.New))
		}
	}
	// 4. exporting the re-imported state yields the same export again
	var first map[string]json.RawMessage
	if err := json.Unmarshal(exp.AppState, &first); err != nil {
		r.Violate("C18", "export_failed", map[string]string{"how": "bad_json"}, "exported app state is not a JSON object: %v", err)
		return
	}
	for _, mod := range []string{"evm", "feemarket", "cpc", "vauth"} {
		if second[mod] == nil {
			continue
		}
		if !jsonEqual(first[mod], second[mod]) {
			r.Violate("C18", "second_export_differs", map[string]string{"module": mod}, "module %s: the export of the re-imported state differs from the first export:\n   first : %s\n   second: %s", mod, clip(string(compactJSON(first[mod]))), clip(string(compactJSON(second[mod]))))
		}
	}
	r.Probe("round_trip_with_contracts", len(vp.CodeHash) > 0)
	r.Probe("round_trip_with_proofs", len(prim.Stores["vauth"]) > 0)
	r.Probe("round_trip_with_allowances", len(prim.Prefix("cpc", []byte{4})) > 0)
	r.Probe("round_trip_with_deployed_erc20", len(prim.Prefix("cpc", []byte{3})) > 0)
	_ = evmtypes.ModuleName
}

func clipB(b []byte) []byte {
	if len(b) > 48 {
		return b[:48]
	}
	return b
}

func compactJSON(b []byte) []byte {
	var v interface{}
	if err := json.Unmarshal(b, &v); err != nil {
		return b
	}
	out, _ := json.Marshal(v)
	return out
}

func jsonEqual(a, b []byte) bool { return bytes.Equal(compactJSON(a), compactJSON(b)) }

// ---- generator ------------------------------------------------------------------------------------------

func genC18(rng *rand.Rand, seed uint64, tier string) *Script {
	g := pcGenesis(rng)
	g.Erc20Native, g.StakingCpc = rng.IntN(2) == 0, rng.IntN(2) == 0
	g.BaseFee = pick(rng, "1000000000", "7", "0", "123456789012345")
	g.MinGasPrice = pick(rng, "0", "0.5", "1000000000.5", "3")
	s := &Script{Prop: "C18", Seed: seed, Gen: g, Extra: map[string]string{}}
	// which kinds of custom-module state this history creates
	withTokens, withProofs, withApprovals := rng.IntN(3) == 0, rng.IntN(3) == 0, rng.IntN(3) == 0
	ops := []Op{{K: "block", Dt: 5}}
	if withTokens {
		ops = append(ops, Op{K: "msg", W: 0, Mut: "cpc_erc20", Denom: "utwo"}, Op{K: "block", Dt: 5})
	}
	nb := 3 + rng.IntN(8)
	for b := 0; b < nb; b++ {
		for i, n := 0, rng.IntN(6); i < n; i++ {
			switch k := rng.IntN(100); {
			case k < 10 && withProofs:
				ops = append(ops, Op{K: "msg", W: rng.IntN(g.Wallets), Mut: "vauth_proof", To: pick(rng, "fresh1", "fresh2", "w3", "fresh3"), Note: pick(rng, "", "", "", "wrongkey", "v27")})
			case k < 25 && withApprovals:
				ops = append(ops, genErc20PairOp(rng, &g, 1, false))
			case k < 30: // slots at the ends of the key space
				ops = append(ops, genSlotWrite(rng, rng.IntN(g.Wallets)))
			case k < 40: // storage: set and clear slots, zero-valued writes
				ops = append(ops, Op{K: "eth", W: rng.IntN(g.Wallets), To: "c:clear", Gas: "i+300000", Price: "b+1", Data: hexWord(1+rng.IntN(8)) + hexWord(pick(rng, 0, 0, 5, 0xff))})
			case k < 50: // creation, possibly with storage written by the constructor
				ops = append(ops, Op{K: "eth", W: rng.IntN(g.Wallets), Init: pick(rng, "store", "clear", "logs", "sd"), Gas: "i+600000", Price: "b+1"})
			case k < 58: // self-destruct
				ops = append(ops, Op{K: "eth", W: rng.IntN(g.Wallets), To: pick(rng, "c:sd", "c:sd2", fmt.Sprintf("n:%d", rng.IntN(20))), Data: "{w1}", Gas: "i+100000", Price: "b+1"})
			case k < 66:
				ops = append(ops, Op{K: "eth", W: rng.IntN(g.Wallets), To: "c:factory", Data: hexWord(0), Val: "10", Gas: "i+400000", Price: "b+1"})
			case k < 74:
				ops = append(ops, Op{K: "eth", W: rng.IntN(g.Wallets), To: pick(rng, "c:store", fmt.Sprintf("n:%d", rng.IntN(20))), Data: hexWord(rng.IntN(4)), Gas: "i+100000", Price: "b+1"})
			default:
				ops = append(ops, genMixedTx(rng, &g))
			}
		}
		ops = append(ops, Op{K: "block", Dt: pick(rng, 1, 5, 5), Prop: rng.IntN(3), Byz: rng.IntN(8) == 0})
		if rng.IntN(6) == 0 {
			ops = append(ops, Op{K: "export"})
		}
	}
	ops = append(ops, Op{K: "block", Dt: 5}, Op{K: "export"})
	s.Ops = ops
	return s
}
