package evsim

import (
	"bytes"
	"fmt"
	"math/big"
	"math/rand/v2"
	"strings"

	sdkmath "cosmossdk.io/math"
	evertypes "github.com/EscanBE/evermint/v12/types"
	evmtypes "github.com/EscanBE/evermint/v12/x/evm/types"
	codectypes "github.com/cosmos/cosmos-sdk/codec/types"
	sdk "github.com/cosmos/cosmos-sdk/types"
	txtypes "github.com/cosmos/cosmos-sdk/types/tx"
	"github.com/cosmos/cosmos-sdk/types/tx/signing"
	vestingtypes "github.com/cosmos/cosmos-sdk/x/auth/vesting/types"
	"github.com/cosmos/cosmos-sdk/x/authz"
	banktypes "github.com/cosmos/cosmos-sdk/x/bank/types"
	"github.com/cosmos/gogoproto/proto"
)

// ---- C07: dual-lane isolation ---------------------------------------------------------------------------
//
// Shapes are built next to a descriptor-free, independent reading: the oracle decodes the raw TxRaw / TxBody /
// AuthInfo protos itself and evaluates the lane predicate written from the property statement. Checked in
// CheckTx, Simulate and FinalizeBlock (byzantine inclusion: shapes CheckTx refuses still reach blocks):
//   accepted with an Ethereum message  =>  EthLaneOK(raw tx)
//   EVM execution observed (tx_receipt event / evm store change)  =>  sole-Ethereum-message shape
//   accepted Cosmos tx  =>  no Ethereum / vesting-creation message nested in MsgExec at any depth, no grant for them

var laneDisabledURLs = map[string]bool{
	"/ethermint.evm.v1.MsgEthereumTx":                         true,
	"/cosmos.vesting.v1beta1.MsgCreateVestingAccount":         true,
	"/cosmos.vesting.v1beta1.MsgCreatePeriodicVestingAccount": true,
	"/cosmos.vesting.v1beta1.MsgCreatePermanentLockedAccount": true,
}

const ethMsgURL = "/ethermint.evm.v1.MsgEthereumTx"
const ethExtOptURL = "/ethermint.evm.v1.ExtensionOptionsEthereumTx"

// rawShape is the harness's own reading of transaction bytes (SDK proto types only).
type rawShape struct {
	OK       bool
	Body     txtypes.TxBody
	Auth     txtypes.AuthInfo
	NSigs    int
	TopURLs  []string
	EthInner *evmtypes.MsgEthereumTx
}

func readShape(bz []byte) *rawShape {
	s := &rawShape{}
	var raw txtypes.TxRaw
	if err := proto.Unmarshal(bz, &raw); err != nil {
		return s
	}
	if err := proto.Unmarshal(raw.BodyBytes, &s.Body); err != nil {
		return s
	}
	if err := proto.Unmarshal(raw.AuthInfoBytes, &s.Auth); err != nil {
		return s
	}
	s.NSigs = len(raw.Signatures)
	for _, m := range s.Body.Messages {
		s.TopURLs = append(s.TopURLs, m.TypeUrl)
		if m.TypeUrl == ethMsgURL && s.EthInner == nil {
			var e evmtypes.MsgEthereumTx
			if err := proto.Unmarshal(m.Value, &e); err == nil {
				s.EthInner = &e
			}
		}
	}
	s.OK = true
	return s
}

func (s *rawShape) containsEth() bool {
	for _, u := range s.TopURLs {
		if u == ethMsgURL {
			return true
		}
	}
	return false
}

// ethLaneOK is the predicate of the property statement; it returns the first rule the shape breaks.
func (s *rawShape) ethLaneOK() string {
	if len(s.TopURLs) != 1 || s.TopURLs[0] != ethMsgURL {
		return "not_sole_message"
	}
	if s.NSigs != 0 {
		return "has_signatures"
	}
	if len(s.Auth.SignerInfos) != 0 {
		return "has_signer_infos"
	}
	fee := s.Auth.Fee
	if fee != nil && (fee.Payer != "" || fee.Granter != "") {
		return "has_fee_payer_or_granter"
	}
	if s.Body.Memo != "" {
		return "has_memo"
	}
	if s.Body.TimeoutHeight != 0 {
		return "has_timeout_height"
	}
	if len(s.Body.NonCriticalExtensionOptions) != 0 {
		return "has_foreign_extension_option"
	}
	for _, o := range s.Body.ExtensionOptions {
		if o.TypeUrl != ethExtOptURL {
			return "has_foreign_extension_option"
		}
	}
	if len(s.Body.ExtensionOptions) > 1 {
		return "has_foreign_extension_option"
	}
	if s.EthInner == nil {
		return "undecodable_ethereum_message"
	}
	var et ethTxLite
	if !et.decode(s.EthInner.MarshalledTx) {
		return "undecodable_ethereum_payload"
	}
	if fee == nil || fee.GasLimit != et.Gas {
		return "gas_limit_differs_from_embedded"
	}
	want := new(big.Int).Mul(et.FeeCap, new(big.Int).SetUint64(et.Gas))
	got := new(big.Int)
	for _, c := range fee.Amount {
		if c.Denom != BaseDenom {
			return "fee_differs_from_embedded"
		}
		got.Add(got, c.Amount.BigInt())
	}
	if got.Cmp(want) != 0 {
		return "fee_differs_from_embedded"
	}
	return ""
}

// nestedDisabled walks MsgExec nests (any depth) and MsgGrant authorisations of a message list.
func nestedDisabled(msgs []*codectypes.Any, depth int) string {
	for _, m := range msgs {
		switch m.TypeUrl {
		case "/cosmos.authz.v1beta1.MsgExec":
			var e authz.MsgExec
			if err := proto.Unmarshal(m.Value, &e); err != nil {
				continue
			}
			for _, in := range e.Msgs {
				if laneDisabledURLs[in.TypeUrl] {
					return fmt.Sprintf("nested:%s", shortURL(in.TypeUrl))
				}
			}
			if r := nestedDisabled(e.Msgs, depth+1); r != "" {
				return r
			}
		case "/cosmos.authz.v1beta1.MsgGrant":
			var g authz.MsgGrant
			if err := proto.Unmarshal(m.Value, &g); err != nil || g.Grant.Authorization == nil {
				continue
			}
			if g.Grant.Authorization.TypeUrl == "/cosmos.authz.v1beta1.GenericAuthorization" {
				var ga authz.GenericAuthorization
				if err := proto.Unmarshal(g.Grant.Authorization.Value, &ga); err == nil && laneDisabledURLs[ga.Msg] {
					return fmt.Sprintf("grant:%s", shortURL(ga.Msg))
				}
			}
		}
	}
	return ""
}

func shortURL(u string) string {
	if i := strings.LastIndexByte(u, '.'); i >= 0 {
		return u[i+1:]
	}
	return u
}

// oracleC07Tx judges one transaction result in one mode.
func oracleC07(r *RunCtx, mode string, bz []byte, accepted bool, evmRan bool) {
	s := readShape(bz)
	if !s.OK {
		if accepted {
			r.Cross["c07:accepted_unreadable_tx"]++
		}
		return
	}
	r.Count("o:c07_shapes_" + mode)
	if s.containsEth() {
		why := s.ethLaneOK()
		r.Probe("eth_shape_violating_lane_rules_offered", why != "")
		if accepted && why != "" {
			r.Violate("C07", "ethereum_tx_accepted_outside_lane_rules", map[string]string{"mode": mode, "rule": why}, "a tx containing an Ethereum message was accepted in %s mode although it breaks the lane rule %q (messages %v)", mode, why, s.TopURLs)
		}
	} else if accepted {
		if why := nestedDisabled(s.Body.Messages, 1); why != "" {
			r.Violate("C07", "disabled_message_through_cosmos_lane", map[string]string{"mode": mode, "how": why}, "a Cosmos-lane tx was accepted in %s mode although it carries %s", mode, why)
		}
	}
	if evmRan && (!s.containsEth() || s.ethLaneOK() != "") {
		r.Violate("C07", "evm_executed_outside_evm_lane", map[string]string{"mode": mode}, "the EVM executed for a tx whose shape is not a sole Ethereum message (messages %v)", s.TopURLs)
	}
}

func c07AfterBlock(w *World, rec *BlockRecord, txs []*TxInfo) {
	for _, t := range txs {
		if t.Res == nil {
			continue
		}
		w.R.At(rec.Height, t.Pos)
		accepted := t.Obs != nil && t.Obs.AnteErr == nil
		evmRan := t.HasReceipt
		if !evmRan && t.Obs != nil && t.Obs.After != nil {
			for _, d := range Diff(t.Obs.Before, t.Obs.After) {
				if d.Store == "evm" {
					evmRan = true
					break
				}
			}
		}
		oracleC07(w.R, "deliver", t.Bytes, accepted, evmRan)
	}
}

// ethTxLite decodes just what the predicate needs from an Ethereum payload, through go-ethereum's types.
type ethTxLite struct {
	Gas    uint64
	FeeCap *big.Int
}

func (e *ethTxLite) decode(bz []byte) bool {
	tx, ok := decodeEthPayload(bz)
	if !ok {
		return false
	}
	e.Gas = tx.Gas()
	e.FeeCap = tx.GasFeeCap()
	return true
}

// ---- shape construction ----------------------------------------------------------------------------------

// execNest wraps msgs into depth levels of MsgExec with the given grantee.
func execNest(grantee sdk.AccAddress, msgs []sdk.Msg, depth int) []sdk.Msg {
	for i := 0; i < depth; i++ {
		e := authz.NewMsgExec(grantee, msgs)
		msgs = []sdk.Msg{&e}
	}
	return msgs
}

// opLane: K=lane, W wallet, Mut recipe, Ref depth / variant, Via "", "check", "simulate".
func opLane(w *World, op *Op) {
	wl := w.wallet(op.W)
	other := w.wallet(op.W + 1)
	base := w.BaseFee()
	price := new(big.Int).Add(base, big.NewInt(1))
	nonce := w.nextNonce(op.W, wl)
	e := &EthTx{Type: op.Typ % 3, Nonce: nonce, To: &other.Addr, Value: big.NewInt(1), Gas: 60000, GasPrice: price, FeeCap: price, TipCap: big.NewInt(0)}
	ethTx := SignEth(wl, e)
	ethMsg := EthMsg(ethTx, wl.Addr)
	feeCap := ethTx.GasFeeCap()
	fullFee := new(big.Int).Mul(feeCap, new(big.Int).SetUint64(ethTx.Gas()))
	send := &banktypes.MsgSend{FromAddress: wl.Bech32(), ToAddress: other.Bech32(), Amount: sdk.NewCoins(sdk.NewInt64Coin(BaseDenom, 1))}
	_, accNum, _ := w.committedSeq(wl.Acc())
	cosmosFee := sdk.NewCoins(sdk.NewCoin(BaseDenom, sdkmath.NewIntFromBigInt(new(big.Int).Mul(price, big.NewInt(900000)))))
	signedCosmos := func(msgs ...sdk.Msg) []byte {
		return BuildCosmosTx(wl, &CosmosTx{Msgs: msgs, Gas: 900000, Fee: cosmosFee, AccNum: accNum, Seq: nonce})
	}
	var bz []byte
	valid := false
	switch op.Mut {
	case "valid":
		bz, valid = WrapEth(ethMsg, ethTx.Gas(), fullFee, nil), true
	case "memo":
		bz = WrapEth(ethMsg, ethTx.Gas(), fullFee, &WrapOpts{Memo: "hello"})
	case "memo_blank": // a memo that is present but consists of white space only
		bz = WrapEth(ethMsg, ethTx.Gas(), fullFee, &WrapOpts{Memo: pick(newRng(uint64(op.Ref)+11), " ", "\n", "\t  ", strings.Repeat(" ", 300))})
	case "timeout":
		bz = WrapEth(ethMsg, ethTx.Gas(), fullFee, &WrapOpts{TimeoutHeight: pick(newRng(uint64(op.Ref)+5), uint64(w.C.Height+100), uint64(w.C.Height+100), 1, 1<<63, 1<<63+7, ^uint64(0))})
	case "fee_payer":
		bz = WrapEth(ethMsg, ethTx.Gas(), fullFee, &WrapOpts{FeePayer: other.Acc()})
	case "fee_granter":
		bz = WrapEth(ethMsg, ethTx.Gas(), fullFee, &WrapOpts{FeeGranter: other.Acc()})
	case "no_ext_opt":
		bz = WrapEth(ethMsg, ethTx.Gas(), fullFee, &WrapOpts{NoExtOpt: true})
		valid = true // allowed: no foreign option
	case "extra_ext_opt":
		bz = WrapEth(ethMsg, ethTx.Gas(), fullFee, &WrapOpts{ExtraExtOpt: &evertypes.ExtensionOptionDynamicFeeTx{MaxPriorityPrice: sdkmath.ZeroInt()}})
	case "foreign_ext_opt_only":
		bz = WrapEth(ethMsg, ethTx.Gas(), fullFee, &WrapOpts{NoExtOpt: true, ExtraExtOpt: &evertypes.ExtensionOptionDynamicFeeTx{MaxPriorityPrice: sdkmath.ZeroInt()}})
	case "non_critical_ext_opt":
		bz = WrapEth(ethMsg, ethTx.Gas(), fullFee, &WrapOpts{NonCritExtOpt: &evertypes.ExtensionOptionDynamicFeeTx{MaxPriorityPrice: sdkmath.ZeroInt()}})
	case "non_critical_ext_opt_only": // no critical option at all, a non-critical one instead
		bz = WrapEth(ethMsg, ethTx.Gas(), fullFee, &WrapOpts{NoExtOpt: true, NonCritExtOpt: &evertypes.ExtensionOptionDynamicFeeTx{MaxPriorityPrice: sdkmath.ZeroInt()}})
	case "fee_lower":
		bz = WrapEth(ethMsg, ethTx.Gas(), new(big.Int).Sub(fullFee, big.NewInt(1)), nil)
	case "fee_higher":
		bz = WrapEth(ethMsg, ethTx.Gas(), new(big.Int).Add(fullFee, big.NewInt(1)), nil)
	case "fee_other_denom":
		f := sdk.Coins{sdk.NewCoin("utwo", sdkmath.NewIntFromBigInt(fullFee))}
		bz = WrapEth(ethMsg, ethTx.Gas(), fullFee, &WrapOpts{FeeOverride: &f})
	case "gas_higher":
		g := ethTx.Gas() + 1
		bz = WrapEth(ethMsg, ethTx.Gas(), fullFee, &WrapOpts{GasOverride: &g})
	case "gas_lower":
		g := ethTx.Gas() - 1
		bz = WrapEth(ethMsg, ethTx.Gas(), fullFee, &WrapOpts{GasOverride: &g})
	case "two_eth":
		e2 := *e
		e2.Nonce++
		m2 := EthMsg(SignEth(wl, &e2), wl.Addr)
		bz = WrapEth(ethMsg, ethTx.Gas(), fullFee, &WrapOpts{ExtraMsgs: []sdk.Msg{m2}})
	case "many_eth":
		// three to six Ethereum messages (consecutive nonces, or the same message repeated) in one envelope whose fee
		// and gas are those of the first message, or the sums
		rr := newRng(uint64(op.Ref) + 23)
		n := 3 + rr.IntN(4)
		if rr.IntN(3) > 0 {
			// room for all of them under the gas limit of the first
			e.Gas = 400000
			ethTx = SignEth(wl, e)
			ethMsg = EthMsg(ethTx, wl.Addr)
			fullFee = new(big.Int).Mul(ethTx.GasFeeCap(), new(big.Int).SetUint64(ethTx.Gas()))
		}
		same := rr.IntN(3) == 0
		var extra []sdk.Msg
		for i := 1; i < n; i++ {
			e2 := *e
			if !same {
				e2.Nonce += uint64(i)
			}
			extra = append(extra, EthMsg(SignEth(wl, &e2), wl.Addr))
		}
		fee, gas := fullFee, ethTx.Gas()
		if rr.IntN(2) == 0 {
			fee, gas = new(big.Int).Mul(fullFee, big.NewInt(int64(n))), gas*uint64(n)
		}
		bz = WrapEth(ethMsg, ethTx.Gas(), fee, &WrapOpts{ExtraMsgs: extra, GasOverride: &gas})
	case "eth_beside_send":
		bz = WrapEth(ethMsg, ethTx.Gas(), fullFee, &WrapOpts{ExtraMsgs: []sdk.Msg{send}})
	case "send_beside_eth_signed":
		bz = signedCosmos(send, ethMsg)
	case "with_signature":
		bz = WrapEth(ethMsg, ethTx.Gas(), fullFee, &WrapOpts{Sigs: []signing.SignatureV2{{PubKey: wl.PubKey(), Data: &signing.SingleSignatureData{SignMode: signing.SignMode_SIGN_MODE_DIRECT, Signature: bytes.Repeat([]byte{1}, 65)}, Sequence: nonce}}})
	case "raw_signature_no_signer_info":
		// signatures without signer infos: only constructible by re-encoding TxRaw by hand
		good := WrapEth(ethMsg, ethTx.Gas(), fullFee, nil)
		var raw txtypes.TxRaw
		_ = proto.Unmarshal(good, &raw)
		raw.Signatures = [][]byte{bytes.Repeat([]byte{7}, 10+op.Ref)}
		bz, _ = proto.Marshal(&raw)
	case "exec_eth": // Ethereum message nested in MsgExec, depth Ref (1..5), possibly behind an innocuous sibling
		msgs := execNest(wl.Acc(), []sdk.Msg{ethMsg}, 1+op.Ref%5)
		if op.Typ%2 == 1 {
			first := authz.NewMsgExec(wl.Acc(), []sdk.Msg{send})
			msgs = append([]sdk.Msg{&first}, msgs...)
		}
		bz = signedCosmos(msgs...)
	case "exec_eth_of_another_sender": // somebody else's signed Ethereum tx (valid nonce, possibly unprotected), relayed with From = the grantee
		on, _, _ := w.committedSeq(other.Acc())
		ve := &EthTx{Type: 0, Nonce: on, To: &wl.Addr, Value: big.NewInt(12345), Gas: 60000, GasPrice: price, FeeCap: price, TipCap: big.NewInt(0), Unprotected: op.Typ%2 == 0}
		victimTx := SignEth(other, ve)
		relayed := EthMsg(victimTx, wl.Addr)
		first := authz.NewMsgExec(wl.Acc(), []sdk.Msg{send})
		second := authz.NewMsgExec(wl.Acc(), []sdk.Msg{relayed})
		msgs := []sdk.Msg{&first, &second}
		if op.Ref%3 == 0 {
			msgs = []sdk.Msg{&second}
		}
		bz = signedCosmos(msgs...)
	case "exec_exec_sibling_eth": // exec( exec(send), eth )
		inner := authz.NewMsgExec(wl.Acc(), []sdk.Msg{send})
		bz = signedCosmos(execNest(wl.Acc(), []sdk.Msg{&inner, ethMsg}, 1)...)
	case "grant_eth":
		exp := w.C.Time.AddDate(1, 0, 0)
		g, err := authz.NewMsgGrant(wl.Acc(), other.Acc(), authz.NewGenericAuthorization(pick(newRng(uint64(op.Ref)+3), ethMsgURL, "/cosmos.vesting.v1beta1.MsgCreateVestingAccount", "/cosmos.vesting.v1beta1.MsgCreatePermanentLockedAccount")), &exp)
		if err != nil {
			panic(err)
		}
		msgs := []sdk.Msg{g}
		if op.Typ%2 == 1 {
			first := authz.NewMsgExec(wl.Acc(), []sdk.Msg{send})
			msgs = append([]sdk.Msg{&first}, msgs...)
		}
		bz = signedCosmos(msgs...)
	case "exec_vesting":
		target := NewWallet("fresh", 20+op.Ref)
		v := vestingtypes.NewMsgCreateVestingAccount(wl.Acc(), target.Acc(), sdk.NewCoins(sdk.NewInt64Coin(BaseDenom, 1000)), w.C.Time.Unix()+100000, false)
		msgs := execNest(wl.Acc(), []sdk.Msg{v}, 1+op.Ref%4)
		if op.Typ%2 == 1 {
			first := authz.NewMsgExec(wl.Acc(), []sdk.Msg{send})
			msgs = append([]sdk.Msg{&first}, msgs...)
		}
		bz = signedCosmos(msgs...)
	case "exec_send": // a harmless nest (positive control for the Cosmos lane)
		bz, valid = signedCosmos(execNest(wl.Acc(), []sdk.Msg{send}, 1+op.Ref%3)...), true
	default:
		panic("harness: unknown lane recipe " + op.Mut)
	}
	w.R.Count("o:lane_" + op.Mut)
	switch op.Via {
	case "simulate":
		res, ok := w.grpcQuery("/cosmos.tx.v1beta1.Service/Simulate", &txtypes.SimulateRequest{TxBytes: bz}, 0)
		if ok {
			oracleC07(w.R, "simulate", bz, res.Code == 0, false)
		}
		return
	case "check", "recheck":
		res, _, pi := w.C.Node.CheckTx(abciCheckReq(bz))
		if pi != nil {
			w.R.Violate("C20", "abci_panic", map[string]string{"phase": "CheckTx", "site": panicSite(pi)}, "CheckTx panicked: %s", pi.Value)
			return
		}
		if res != nil {
			oracleC07(w.R, "check", bz, res.Code == 0, false)
			if res.Code != 0 {
				return
			}
		}
	}
	if valid {
		w.next[op.W] = nonce + 1
	}
	w.submitBytes(bz, -1, "")
}

var laneRecipes = []string{"valid", "memo", "memo_blank", "timeout", "fee_payer", "fee_granter", "no_ext_opt", "extra_ext_opt", "foreign_ext_opt_only", "non_critical_ext_opt", "non_critical_ext_opt_only", "fee_lower", "fee_higher",
	"fee_other_denom", "gas_higher", "gas_lower", "two_eth", "many_eth", "many_eth", "eth_beside_send", "send_beside_eth_signed", "with_signature", "raw_signature_no_signer_info", "exec_eth", "exec_eth", "exec_exec_sibling_eth",
	"grant_eth", "exec_vesting", "exec_send", "exec_eth_of_another_sender"}

func genC07(rng *rand.Rand, seed uint64, tier string) *Script {
	g, _ := mixedGenesis(rng)
	g.MaxGas = pick(rng, int64(40_000_000), -1)
	g.BaseFee = pick(rng, "1000000000", "7", "0")
	g.MinGasPrice = pick(rng, "0", "0", "0.5")
	s := &Script{Prop: "C07", Seed: seed, Gen: g, Extra: map[string]string{}}
	ops := []Op{{K: "block", Dt: 5}}
	nb := 4 + rng.IntN(8)
	for b := 0; b < nb; b++ {
		for i, n := 0, 1+rng.IntN(6); i < n; i++ {
			if rng.IntN(5) == 0 {
				ops = append(ops, genMixedTx(rng, &g))
				continue
			}
			ops = append(ops, Op{K: "lane", W: rng.IntN(g.Wallets), Mut: laneRecipes[rng.IntN(len(laneRecipes))], Ref: rng.IntN(8), Typ: rng.IntN(6), Via: pick(rng, "", "", "", "check", "simulate")})
		}
		ops = append(ops, Op{K: "block", Dt: pick(rng, 1, 5, 5), Prop: rng.IntN(3), Byz: rng.IntN(2) == 0})
	}
	ops = append(ops, Op{K: "block", Dt: 5})
	s.Ops = ops
	return s
}

func init() {
	opHandlers["lane"] = opLane
	Arms["C07"] = &Arm{Gen: genC07, Run: runPc(c07AfterBlock)}
}
