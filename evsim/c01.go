package evsim

import (
	"time"
	"bytes"
	"encoding/hex"
	"encoding/json"
	"evsim/simrt"
	"fmt"
	"math/rand/v2"
	"sort"

	cpctypes "github.com/EscanBE/evermint/v12/x/cpc/types"
	evmtypes "github.com/EscanBE/evermint/v12/x/evm/types"
	abci "github.com/cometbft/cometbft/abci/types"
	sdkdb "github.com/cosmos/cosmos-db"
	"github.com/cosmos/gogoproto/proto"
	"github.com/ethereum/go-ethereum/common"
	ethcrypto "github.com/ethereum/go-ethereum/crypto"
)

// ReplicaEnv is the environment vector of one re-execution (C01): none of it may influence results.
type ReplicaEnv struct {
	Name        string   `json:"name"`
	WallOffsetS int64    `json:"wall_offset_s"`
	Node        NodeOpts `json:"node"`
	MapOrder    string   `json:"map_order,omitempty"`  // asc | desc | shuffle (seeded) — needs the map-order overlay
	ReopenAt    []int64  `json:"reopen_at,omitempty"`  // re-open the app from its DB after Commit of these heights
	KillAt      []int64  `json:"kill_at,omitempty"`    // FinalizeBlock, process dies before Commit, restart, re-execute
	Interleave  bool     `json:"interleave,omitempty"` // CheckTx of the block's txs before FinalizeBlock (mempool traffic)
	Queries     bool     `json:"queries,omitempty"`    // the node serves eth_call traffic (latest and historical heights) between ABCI calls
	Rounds      bool     `json:"rounds,omitempty"`     // the node is a validator that saw failed consensus rounds: it prepares / processes other proposals for the height before the decided one

	primaryOffset int64
}

func has64(xs []int64, x int64) bool {
	for _, y := range xs {
		if x == y {
			return true
		}
	}
	return false
}

type evKV struct{ T, K, V string }

func flattenEvents(evs []abci.Event) []evKV {
	var out []evKV
	for _, e := range evs {
		if len(e.Attributes) == 0 {
			out = append(out, evKV{e.Type, "", ""})
		}
		for _, a := range e.Attributes {
			out = append(out, evKV{e.Type, a.Key, a.Value})
		}
	}
	return out
}

func firstEventDiff(a, b []evKV) string {
	n := len(a)
	if len(b) < n {
		n = len(b)
	}
	for i := 0; i < n; i++ {
		if a[i] != b[i] {
			return fmt.Sprintf("#%d %v vs %v", i, a[i], b[i])
		}
	}
	if len(a) != len(b) {
		return fmt.Sprintf("length %d vs %d", len(a), len(b))
	}
	return ""
}

func sameMultiset(a, b []evKV) bool {
	if len(a) != len(b) {
		return false
	}
	x := append([]evKV(nil), a...)
	y := append([]evKV(nil), b...)
	less := func(s []evKV) func(i, j int) bool {
		return func(i, j int) bool {
			if s[i].T != s[j].T {
				return s[i].T < s[j].T
			}
			if s[i].K != s[j].K {
				return s[i].K < s[j].K
			}
			return s[i].V < s[j].V
		}
	}
	sort.Slice(x, less(x))
	sort.Slice(y, less(y))
	for i := range x {
		if x[i] != y[i] {
			return false
		}
	}
	return true
}

// CompareFinalize compares the fields C01 names between the primary's and a replica's result of one height.
func CompareFinalize(r *RunCtx, env *ReplicaEnv, h int64, p, q *abci.ResponseFinalizeBlock) bool {
	why := envClass(env)
	ok := true
	if !bytes.Equal(p.AppHash, q.AppHash) {
		r.Violate("C01", "app_hash_diverged", map[string]string{"env": why}, "height %d: replica %s app hash %x != primary %x", h, env.Name, q.AppHash, p.AppHash)
		ok = false
	}
	if len(p.TxResults) != len(q.TxResults) {
		r.Violate("C01", "tx_results_diverged", map[string]string{"env": why, "field": "count"}, "height %d: %d vs %d tx results", h, len(p.TxResults), len(q.TxResults))
		return false
	}
	for i := range p.TxResults {
		a, b := p.TxResults[i], q.TxResults[i]
		r.At(h, i)
		if a.Code != b.Code || !bytes.Equal(a.Data, b.Data) || a.GasWanted != b.GasWanted || a.GasUsed != b.GasUsed {
			r.Violate("C01", "tx_results_diverged", map[string]string{"env": why, "field": "code_data_gas"},
				"height %d tx %d: (code %d gasW %d gasU %d data %x) vs replica %s (code %d gasW %d gasU %d data %x); logs %q vs %q", h, i, a.Code, a.GasWanted, a.GasUsed, sha(a.Data), env.Name, b.Code, b.GasWanted, b.GasUsed, sha(b.Data), a.Log, b.Log)
			ok = false
		}
		if a.Codespace != b.Codespace {
			r.Cross["c01:codespace_differs"]++
		}
		ea, eb := flattenEvents(a.Events), flattenEvents(b.Events)
		if d := firstEventDiff(ea, eb); d != "" {
			kind := "content"
			if sameMultiset(ea, eb) {
				kind = "order"
			}
			r.Violate("C01", "events_diverged", map[string]string{"env": why, "kind": kind, "scope": "tx"}, "height %d tx %d: events differ from replica %s: %s", h, i, env.Name, d)
			ok = false
		}
	}
	r.At(h, -1)
	ea, eb := flattenEvents(p.Events), flattenEvents(q.Events)
	if d := firstEventDiff(ea, eb); d != "" {
		kind := "content"
		if sameMultiset(ea, eb) {
			kind = "order"
		}
		r.Violate("C01", "events_diverged", map[string]string{"env": why, "kind": kind, "scope": "block"}, "height %d: block events differ from replica %s: %s", h, env.Name, d)
		ok = false
	}
	if len(p.ValidatorUpdates) != len(q.ValidatorUpdates) {
		r.Violate("C01", "validator_updates_diverged", map[string]string{"env": why}, "height %d: %d vs %d validator updates", h, len(p.ValidatorUpdates), len(q.ValidatorUpdates))
		ok = false
	} else {
		for i := range p.ValidatorUpdates {
			if p.ValidatorUpdates[i].Power != q.ValidatorUpdates[i].Power || !p.ValidatorUpdates[i].PubKey.Equal(q.ValidatorUpdates[i].PubKey) {
				r.Violate("C01", "validator_updates_diverged", map[string]string{"env": why}, "height %d: validator update %d differs", h, i)
				ok = false
			}
		}
	}
	if (p.ConsensusParamUpdates == nil) != (q.ConsensusParamUpdates == nil) || (p.ConsensusParamUpdates != nil && p.ConsensusParamUpdates.String() != q.ConsensusParamUpdates.String()) {
		r.Cross["c01:consensus_param_updates_differ"]++
	}
	return ok
}

// envDims lists the dimensions in which a replica environment differs from the primary's.
func envDims(e *ReplicaEnv) []string {
	var parts []string
	if e.WallOffsetS != e.primaryOffset {
		parts = append(parts, "clock")
	}
	if e.MapOrder != "" && e.MapOrder != "native" && e.MapOrder != "asc" {
		parts = append(parts, "maporder")
	}
	if len(e.ReopenAt) > 0 || len(e.KillAt) > 0 {
		parts = append(parts, "restart")
	}
	n := e.Node
	if n.MinGasPrices != "" {
		parts = append(parts, "config.min_gas_prices")
	}
	if n.Pruning != "" {
		parts = append(parts, "config.pruning")
	}
	if n.IAVLCache != 0 || n.IAVLNoFastNode {
		parts = append(parts, "config.iavl")
	}
	if n.InterBlock {
		parts = append(parts, "config.inter_block_cache")
	}
	if n.Trace {
		parts = append(parts, "config.trace")
	}
	if len(n.IndexEvents) > 0 {
		parts = append(parts, "config.index_events")
	}
	if n.InvCheckPeriod != 0 {
		parts = append(parts, "config.inv_check_period")
	}
	if n.EvmTracer != "" {
		parts = append(parts, "config.evm_tracer")
	}
	if n.Telemetry {
		parts = append(parts, "config.telemetry")
	}
	if e.Queries {
		parts = append(parts, "queries")
	}
	if e.Rounds {
		parts = append(parts, "rounds")
	}
	if e.Interleave {
		parts = append(parts, "interleave")
	}
	return parts
}

// envClass is the discriminator form of envDims.
func envClass(e *ReplicaEnv) string {
	parts := envDims(e)
	if len(parts) == 0 {
		return "none"
	}
	s := parts[0]
	for _, p := range parts[1:] {
		s += "+" + p
	}
	return s
}

// project keeps only one dimension of e (everything else as on the primary).
func project(e *ReplicaEnv, dim string) ReplicaEnv {
	o := ReplicaEnv{Name: e.Name + "/" + dim, WallOffsetS: e.primaryOffset, MapOrder: "asc", primaryOffset: e.primaryOffset}
	switch dim {
	case "clock":
		o.WallOffsetS = e.WallOffsetS
	case "maporder":
		o.MapOrder = e.MapOrder
	case "restart":
		o.ReopenAt, o.KillAt = e.ReopenAt, e.KillAt
	case "config.min_gas_prices":
		o.Node.MinGasPrices = e.Node.MinGasPrices
	case "config.pruning":
		o.Node.Pruning = e.Node.Pruning
	case "config.iavl":
		o.Node.IAVLCache, o.Node.IAVLNoFastNode = e.Node.IAVLCache, e.Node.IAVLNoFastNode
	case "config.inter_block_cache":
		o.Node.InterBlock = true
	case "config.trace":
		o.Node.Trace = true
	case "config.index_events":
		o.Node.IndexEvents = e.Node.IndexEvents
	case "config.inv_check_period":
		o.Node.InvCheckPeriod = e.Node.InvCheckPeriod
	case "config.evm_tracer":
		o.Node.EvmTracer = e.Node.EvmTracer
	case "config.telemetry":
		o.Node.Telemetry = true
	case "interleave":
		o.Interleave = true
	case "queries":
		o.Queries = true
	case "rounds":
		o.Rounds = true
	}
	return o
}

// replicaQueries: what a node that also serves JSON-RPC does between ABCI calls: eth_call to the precompile addresses
// (registered or not yet) at the latest and at historical heights. Answers are ignored; the point is whatever the
// query path leaves behind in the process.
func replicaQueries(r *RunCtx, n *Node, committed int64) {
	if committed < 1 {
		return
	}
	targets := []common.Address{cpctypes.CpcStakingFixedAddress, cpctypes.CpcBech32FixedAddress}
	for k := uint64(0); k < 4; k++ {
		targets = append(targets, ethcrypto.CreateAddress(cpctypes.CpcModuleAddress, k))
	}
	from := NewWallet("w", 0).Addr
	for i, h := range []int64{0, committed - 1, 1} {
		if h < 0 || (h == 0 && i != 0) {
			continue
		}
		for _, to := range targets {
			args := map[string]interface{}{"from": from.Hex(), "to": to.Hex(), "input": "0x" + hex.EncodeToString(Selector("name()")), "gas": "0x2dc6c0"}
			bz, _ := json.Marshal(args)
			req, _ := proto.Marshal(&evmtypes.EthCallRequest{Args: bz, GasCap: 25_000_000})
			if _, _, pi := n.Query(&abci.RequestQuery{Path: "/ethermint.evm.v1.Query/EthCall", Data: req, Height: h}); pi != nil {
				r.Violate("C20", "abci_panic", map[string]string{"phase": "Query", "site": panicSite(pi)}, "Query panicked: %s", pi.Value)
			}
			r.Count("f:replica_served_query")
		}
	}
}

// RunReplica re-executes the primary's recorded blocks under env in its own bubble.
func RunReplica(rt *Runtime, r *RunCtx, g *Built, recs []*BlockRecord, env *ReplicaEnv, seed uint64) {
	rt.Bubble(env.WallOffsetS, func() {
		SetMapOrder(env.MapOrder, seed)
		defer SetMapOrder("", 0)
		defer setTelemetry(setTelemetry(env.Node.Telemetry))
		db := sdkdb.NewMemDB()
		n := NewNode(env.Name, db, env.Node)
		n.Observe = false
		if _, err, pi := n.InitChain(g.InitChain); err != nil || pi != nil {
			r.Violate("C01", "init_diverged", map[string]string{"env": envClass(env)}, "replica %s: InitChain failed: %v %v", env.Name, err, pi)
			return
		}
		r.Count("o:replicas")
		for _, rec := range recs {
			if rec.Res == nil {
				break
			}
			if env.Interleave {
				for _, tx := range rec.Req.Txs {
					_, _, pi := n.CheckTx(abciCheckReq(tx))
					if pi != nil {
						r.Violate("C20", "abci_panic", map[string]string{"phase": "CheckTx", "site": panicSite(pi)}, "CheckTx panicked: %s", pi.Value)
					}
					r.Count("f:interleaved_checktx")
				}
			}
			if has64(env.KillAt, rec.Height) {
				// the process dies after FinalizeBlock and before Commit; only the DB survives
				_, _, _ = n.FinalizeBlock(rec.Req)
				r.Count("f:kill_before_commit")
				n.Open()
				if n.App.LastBlockHeight() == 0 {
					// nothing was ever committed: CometBFT's handshake replays InitChain
					if _, err, pi := n.InitChain(g.InitChain); err != nil || pi != nil {
						r.Violate("C01", "replica_failed", map[string]string{"env": envClass(env)}, "replica %s: InitChain replay failed: %v %v", env.Name, err, pi)
						return
					}
				}
			}
			if env.Queries {
				replicaQueries(r, n, rec.Height-1)
			}
			if env.Rounds {
				replicaFailedRounds(r, n, rec)
			}
			res, err, pi := n.FinalizeBlock(rec.Req)
			if err != nil || pi != nil {
				r.Violate("C01", "replica_failed", map[string]string{"env": envClass(env)}, "replica %s height %d: FinalizeBlock failed where the primary succeeded: %v %v", env.Name, rec.Height, err, pi)
				return
			}
			if env.Queries {
				replicaQueries(r, n, rec.Height-1) // between FinalizeBlock and Commit
			}
			same := CompareFinalize(r, env, rec.Height, rec.Res, res)
			if _, err, pi := n.Commit(); err != nil || pi != nil {
				r.Violate("C01", "replica_failed", map[string]string{"env": envClass(env)}, "replica %s height %d: Commit failed: %v %v", env.Name, rec.Height, err, pi)
				return
			}
			if !bytes.Equal(n.App.LastCommitID().Hash, rec.AppHash) && same {
				r.Violate("C01", "commit_id_diverged", map[string]string{"env": envClass(env)}, "replica %s height %d: LastCommitID %x != %x", env.Name, rec.Height, n.App.LastCommitID().Hash, rec.AppHash)
				same = false
			}
			r.Logf("replica %s h=%d same=%v", env.Name, rec.Height, same)
			if !same {
				return // later heights diverge as a consequence
			}
			if has64(env.ReopenAt, rec.Height) {
				r.Count("f:reopen_after_commit")
				n.Open()
			}
		}
	})
}

// replicaFailedRounds: what a validator sees at a height whose first rounds failed. Round 0: it is the proposer and
// prepares a proposal from its own mempool view (the decided txs in reverse order); round 1: it processes somebody
// else's proposal (the decided txs rotated by one, another time and proposer); then the proposal that is finally
// decided. None of this may leave anything behind that FinalizeBlock of the decided block can see.
func replicaFailedRounds(r *RunCtx, n *Node, rec *BlockRecord) {
	txs := rec.Req.Txs
	rev := make([][]byte, 0, len(txs))
	for i := len(txs) - 1; i >= 0; i-- {
		rev = append(rev, txs[i])
	}
	rot := rev
	if len(txs) > 1 {
		rot = append(append([][]byte{}, txs[1:]...), txs[0])
	}
	_, _, pi := n.PrepareProposal(&abci.RequestPrepareProposal{
		MaxTxBytes: 1 << 21, Txs: rev, Height: rec.Height, Time: rec.Req.Time.Add(-time.Second),
		NextValidatorsHash: rec.Req.NextValidatorsHash, ProposerAddress: rec.Req.ProposerAddress,
		LocalLastCommit: abci.ExtendedCommitInfo{},
	})
	if pi != nil {
		r.Violate("C20", "abci_panic", map[string]string{"phase": "PrepareProposal", "site": panicSite(pi)}, "PrepareProposal panicked: %s", pi.Value)
	}
	for k, p := range [][][]byte{rot, txs} {
		_, _, pi := n.ProcessProposal(&abci.RequestProcessProposal{
			Txs: p, ProposedLastCommit: rec.Req.DecidedLastCommit, Hash: rec.Req.Hash, Height: rec.Height,
			Time: rec.Req.Time.Add(time.Duration(k-1) * time.Second), NextValidatorsHash: rec.Req.NextValidatorsHash, ProposerAddress: rec.Req.ProposerAddress,
		})
		if pi != nil {
			r.Violate("C20", "abci_panic", map[string]string{"phase": "ProcessProposal", "site": panicSite(pi)}, "ProcessProposal panicked: %s", pi.Value)
		}
	}
	r.Count("f:failed_round_proposals")
}

// genReplicas draws the replica environments of a run.
func genReplicas(rng *rand.Rand, nBlocksHint int, count int, vestEnds []int64) []ReplicaEnv {
	var out []ReplicaEnv
	// wall clocks on both sides of every vesting end time (block-time origin is GenesisUnix, bubble epoch 2000-01-01)
	epoch := int64(946684800)
	clocks := []int64{0, GenesisUnix - epoch + 3, 86400 * 365 * 90}
	for _, e := range vestEnds {
		clocks = append(clocks, GenesisUnix+e-epoch-2, GenesisUnix+e-epoch+2)
	}
	for i := 0; i < count; i++ {
		e := ReplicaEnv{Name: fmt.Sprintf("r%d", i)}
		e.WallOffsetS = clocks[rng.IntN(len(clocks))]
		if e.WallOffsetS < 0 {
			e.WallOffsetS = 0
		}
		e.MapOrder = pick(rng, "asc", "desc", "shuffle", "shuffle")
		if rng.IntN(2) == 0 {
			e.Node = NodeOpts{
				MinGasPrices:   pick(rng, "", "5wei", "9000000000000wei"),
				Pruning:        pick(rng, "", "nothing", "everything", "custom"),
				IAVLCache:      pick(rng, 0, -1, 7),
				IAVLNoFastNode: rng.IntN(3) == 0,
				InterBlock:     rng.IntN(2) == 0,
				Trace:          rng.IntN(2) == 0,
				InvCheckPeriod: uint(pick(rng, 0, 1, 3)),
				EvmTracer:      pick(rng, "", "struct", "access_list"),
				Telemetry:      rng.IntN(2) == 0,
			}
			if rng.IntN(2) == 0 {
				e.Node.IndexEvents = []string{"tx.height", "message.sender"}
			}
		}
		if rng.IntN(2) == 0 {
			for k := 0; k < 1+rng.IntN(3); k++ {
				h := int64(1 + rng.IntN(nBlocksHint+2))
				if rng.IntN(2) == 0 {
					e.ReopenAt = append(e.ReopenAt, h)
				} else {
					e.KillAt = append(e.KillAt, h)
				}
			}
		}
		e.Interleave = rng.IntN(3) == 0
		e.Queries = rng.IntN(3) == 0
		e.Rounds = rng.IntN(3) == 0
		out = append(out, e)
	}
	return out
}

// SetMapOrder forwards to the overlay run-time.
func SetMapOrder(mode string, seed uint64) { simrt.SetMapOrder(mode, seed) }
