package evsim

import (
	"bytes"
	"runtime/debug"
	"fmt"
	"math/big"
	"strings"

	"github.com/ethereum/go-ethereum/common"
	"github.com/ethereum/go-ethereum/core/vm"
	ethcrypto "github.com/ethereum/go-ethereum/crypto"
)

// ---- shared machinery of the precompile arms (C10, C11, C12, C17, C03) -------------------------------

// TmplRouter: calldata = word0 kind | word1 target | word2 value | rest = inner call data.
// kind&3: 0 CALL, 1 DELEGATECALL, 2 CALLCODE, 3 STATICCALL. kind&16: REVERT after the call (with the same data).
// kind&32: emit LOG1(topic 0x77) before the call (a marker effect of this frame).
// Returns word0 = success flag of the inner call followed by its return data.
func TmplRouter() []byte {
	a := NewAsm()
	// marker log
	a.Push(0).Op(vm.CALLDATALOAD).Push(32).Op(vm.AND, vm.ISZERO).PushLabel("nolog").Op(vm.JUMPI)
	a.Push(0x77).Push(0).Push(0).Op(vm.LOG1)
	a.Label("nolog")
	// mem[0:insize] = calldata[96:]
	a.Push(96).Op(vm.CALLDATASIZE, vm.SUB)              // insize
	a.Op(vm.DUP1).Push(96).Push(0).Op(vm.CALLDATACOPY) // stack: insize
	a.Push(0).Op(vm.CALLDATALOAD).Push(3).Op(vm.AND)   // kind, insize
	a.Op(vm.DUP1).Push(1).Op(vm.EQ).PushLabel("dc").Op(vm.JUMPI)
	a.Op(vm.DUP1).Push(2).Op(vm.EQ).PushLabel("cc").Op(vm.JUMPI)
	a.Op(vm.DUP1).Push(3).Op(vm.EQ).PushLabel("sc").Op(vm.JUMPI)
	// CALL(gas,to,value,in,insize,out,outsize)
	a.Op(vm.POP)                                   // insize
	a.Push(0).Push(0).Op(vm.DUP3).Push(0)          // inOff insize outOff outSize ... order: push outSize,outOff,inSize,inOff
	a.Push(64).Op(vm.CALLDATALOAD)                 // value
	a.Push(32).Op(vm.CALLDATALOAD)                 // to
	a.Op(vm.GAS, vm.CALL).PushLabel("fin").Op(vm.JUMP)
	a.Label("dc")
	a.Op(vm.POP)
	a.Push(0).Push(0).Op(vm.DUP3).Push(0)
	a.Push(32).Op(vm.CALLDATALOAD)
	a.Op(vm.GAS, vm.DELEGATECALL).PushLabel("fin").Op(vm.JUMP)
	a.Label("cc")
	a.Op(vm.POP)
	a.Push(0).Push(0).Op(vm.DUP3).Push(0)
	a.Push(64).Op(vm.CALLDATALOAD)
	a.Push(32).Op(vm.CALLDATALOAD)
	a.Op(vm.GAS, vm.CALLCODE).PushLabel("fin").Op(vm.JUMP)
	a.Label("sc")
	a.Op(vm.POP)
	a.Push(0).Push(0).Op(vm.DUP3).Push(0)
	a.Push(32).Op(vm.CALLDATALOAD)
	a.Op(vm.GAS, vm.STATICCALL)
	a.Label("fin") // stack: success, insize
	a.Push(0).Op(vm.MSTORE) // mem[0]=success ; stack: insize
	a.Op(vm.POP)
	a.Op(vm.RETURNDATASIZE).Push(0).Push(32).Op(vm.RETURNDATACOPY) // mem[32:] = returndata
	a.Push(0).Op(vm.CALLDATALOAD).Push(16).Op(vm.AND).PushLabel("rv").Op(vm.JUMPI)
	a.Push(32).Op(vm.RETURNDATASIZE, vm.ADD).Push(0).Op(vm.RETURN)
	a.Label("rv")
	a.Push(32).Op(vm.RETURNDATASIZE, vm.ADD).Push(0).Op(vm.REVERT)
	return a.Bytes()
}

const nRouters = 3

func init() {
	for i := 0; i < nRouters; i++ {
		name := fmt.Sprintf("router%d", i)
		templates[name] = TmplRouter
		TemplateNames = append(TemplateNames, name)
	}
}

// Hop is one frame of a call chain that ends in a precompile call.
type Hop struct {
	Kind   int  // 0 CALL 1 DELEGATECALL 2 CALLCODE 3 STATICCALL : the opcode this frame uses to call the next
	Revert bool // the frame reverts after its call returned
	Log    bool // the frame emits a marker log before its call
}

// ParseChain: "c.d.s" ; suffix "!" = revert after the call, "+" = marker log. "" = direct call from the EOA.
func ParseChain(s string) []Hop {
	if s == "" {
		return nil
	}
	var out []Hop
	for _, t := range strings.Split(s, ".") {
		h := Hop{}
		for strings.HasSuffix(t, "!") || strings.HasSuffix(t, "+") {
			if strings.HasSuffix(t, "!") {
				h.Revert = true
			} else {
				h.Log = true
			}
			t = t[:len(t)-1]
		}
		switch t {
		case "c":
			h.Kind = 0
		case "d":
			h.Kind = 1
		case "cc":
			h.Kind = 2
		case "s":
			h.Kind = 3
		default:
			panic("bad chain token " + t)
		}
		out = append(out, h)
	}
	return out
}

// RouterAddr is the genesis address of router i.
func (w *World) RouterAddr(i int) common.Address { return w.Labels[fmt.Sprintf("router%d", i%nRouters)] }

// ChainPlan is the resolved form of a chain: the tx target, its call data, and what the precompile will see.
type ChainPlan struct {
	To       common.Address
	Data     []byte
	Caller   common.Address // caller.Address() seen by the precompile
	Static   bool           // some frame on the path is a STATICCALL
	Reverted bool           // some frame on the path reverts after the call: all effects of the inner call vanish
	Hops     []Hop
	// frames whose marker log survives (frame index), in order
	MarkerLogs []common.Address
}

// PlanChain wraps inner (call data for target) into router frames. Frame i runs the code of router i.
func (w *World) PlanChain(eoa common.Address, hops []Hop, target common.Address, inner []byte) *ChainPlan {
	p := &ChainPlan{Hops: hops}
	if len(hops) == 0 {
		p.To, p.Data, p.Caller = target, inner, eoa
		return p
	}
	// context address of each frame
	ctxAddr := make([]common.Address, len(hops))
	for i := range hops {
		self := w.RouterAddr(i)
		if i == 0 {
			ctxAddr[i] = self // entered by the tx itself (a CALL)
			continue
		}
		switch hops[i-1].Kind {
		case 1, 2: // DELEGATECALL / CALLCODE keep the caller's storage context
			ctxAddr[i] = ctxAddr[i-1]
		default:
			ctxAddr[i] = self
		}
	}
	p.Caller = ctxAddr[len(hops)-1]
	// build call data inside-out
	data := inner
	to := target
	for i := len(hops) - 1; i >= 0; i-- {
		k := hops[i].Kind
		if hops[i].Revert {
			k |= 16
		}
		if hops[i].Log {
			k |= 32
		}
		data = append(Words(k, to, 0), data...)
		to = w.RouterAddr(i)
	}
	p.To, p.Data = to, data
	static := false
	revAbove := false
	for i, h := range hops {
		if h.Revert {
			p.Reverted = true
			revAbove = true
		}
		if h.Log && !static && !revAbove {
			// the marker log of frame i (emitted in its storage context) survives iff no frame j <= i reverts
			p.MarkerLogs = append(p.MarkerLogs, ctxAddr[i])
		}
		if h.Kind == 3 {
			static = true
		}
	}
	p.Static = static
	return p
}

// Selector is the 4-byte selector of a Solidity signature.
func Selector(sig string) []byte { return ethcrypto.Keccak256([]byte(sig))[:4] }

// CallData = selector || abi words (static types only).
func CallData(sig string, args ...interface{}) []byte {
	return append(Selector(sig), Words(args...)...)
}

// UnwrapRouterReturn peels the (success, returndata) envelopes of n router frames.
// It returns the success flags outermost first and the innermost return data.
func UnwrapRouterReturn(ret []byte, n int) (flags []bool, inner []byte, ok bool) {
	for i := 0; i < n; i++ {
		if len(ret) < 32 {
			return flags, nil, false
		}
		flags = append(flags, new(big.Int).SetBytes(ret[:32]).Sign() != 0)
		ret = ret[32:]
	}
	return flags, ret, true
}

var MaxU256 = new(big.Int).Sub(new(big.Int).Lsh(big.NewInt(1), 256), big.NewInt(1))

var (
	topicTransfer = common.HexToHash("0xddf252ad1be2c89b69c2b068fc378daa952ba7f163c4a11628f55a4df523b3ef")
	topicApproval = common.HexToHash("0x8c5be1e5ebec7d5bd14f71427d1e84f3dd0314c0f7b2291e5b200ac8c7c3b925")
)

func isZeroAddr(a common.Address) bool { return bytes.Equal(a[:], make([]byte, 20)) }

// PcCall describes a generated call to any custom precompile method (C11, C12, C17 arms).
type PcCall struct {
	Target common.Address
	Kind   string // erc20 | staking | bech32
	Method string
	Data   []byte
	Plan   *ChainPlan
	EOA    common.Address
	Note   string
}

func keccak(b []byte) []byte { return ethcrypto.Keccak256(b) }

func debugStack() []byte { return debug.Stack() }

// panicKind names the class of a panic value (stable part of the message).
func panicKind(v string) string {
	for _, k := range []string{"send on closed channel", "close of closed channel", "index out of range", "nil pointer dereference", "failed to unmarshal", "slice bounds out of range", "concurrent map"} {
		if strings.Contains(v, k) {
			return strings.ReplaceAll(k, " ", "_")
		}
	}
	return "other"
}
