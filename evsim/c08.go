package evsim

import (
	"bytes"
	"encoding/hex"
	"encoding/json"
	"fmt"
	"math/big"
	"math/rand/v2"
	"strings"

	evmtypes "github.com/EscanBE/evermint/v12/x/evm/types"
	abci "github.com/cometbft/cometbft/abci/types"
	sdkdb "github.com/cosmos/cosmos-db"
	sdk "github.com/cosmos/cosmos-sdk/types"
	txtypes "github.com/cosmos/cosmos-sdk/types/tx"
	"github.com/cosmos/gogoproto/proto"
	"github.com/ethereum/go-ethereum/common"
	"github.com/ethereum/go-ethereum/common/hexutil"
	ethtypes "github.com/ethereum/go-ethereum/core/types"
	"github.com/ethereum/go-ethereum/core/vm"
)

// ---- C08: simulation and query paths are side-effect free and predict execution -----------------------
//
// Query operations (op kind "q") are executed by the event loop at every point of the block life-cycle:
//   ""     between blocks (after Commit, between CheckTx calls)
//   "pre"  before PrepareProposal          "mid"  between ProcessProposal and FinalizeBlock
//   "fin"  between FinalizeBlock and Commit "post" right after Commit
// Oracles: (1) full dump of every persistent store + working hash + last commit id unchanged around each
// call, (2) a twin that never serves a query reproduces every app hash, (3) same request at the same height
// asked at another point of the schedule gives the same answer, (4) predict-then-deliver.

// TmplEnv returns one block-context value selected by calldata word 0.
func TmplEnv() []byte {
	a := NewAsm()
	sel := func(i int, ops ...vm.OpCode) {
		l := fmt.Sprintf("n%d", i)
		a.Push(0).Op(vm.CALLDATALOAD).Push(i).Op(vm.EQ, vm.ISZERO).PushLabel(l).Op(vm.JUMPI)
		a.Op(ops...)
		a.Push(0).Op(vm.MSTORE).Push(32).Push(0).Op(vm.RETURN)
		a.Label(l)
	}
	sel(0, vm.COINBASE)
	sel(1, vm.TIMESTAMP)
	sel(2, vm.NUMBER)
	sel(3, vm.GASLIMIT)
	sel(4, vm.BASEFEE)
	sel(5, vm.CHAINID)
	sel(6, vm.DIFFICULTY)
	// 7: BLOCKHASH(NUMBER-1)
	a.Push(0).Op(vm.CALLDATALOAD).Push(7).Op(vm.EQ, vm.ISZERO).PushLabel("n7").Op(vm.JUMPI)
	a.Push(1).Op(vm.NUMBER, vm.SUB, vm.BLOCKHASH).Push(0).Op(vm.MSTORE).Push(32).Push(0).Op(vm.RETURN)
	a.Label("n7")
	// 8: BALANCE(COINBASE) — gas depends on the warmth of the coinbase address
	a.Op(vm.COINBASE, vm.BALANCE).Push(0).Op(vm.MSTORE).Push(32).Push(0).Op(vm.RETURN)
	return a.Bytes()
}

var envNames = []string{"coinbase", "timestamp", "number", "gaslimit", "basefee", "chainid", "prevrandao", "blockhash", "coinbase_balance"}

// TmplGasBranch: if GAS > word0 then write word1 slots (expensive) and return 1, else return 2 without writing.
func TmplGasBranch() []byte {
	a := NewAsm()
	a.Push(0).Op(vm.CALLDATALOAD, vm.GAS, vm.GT).PushLabel("rich").Op(vm.JUMPI)
	a.Push(2).Push(0).Op(vm.MSTORE).Push(32).Push(0).Op(vm.RETURN)
	a.Label("rich")
	a.Push(32).Op(vm.CALLDATALOAD) // n
	a.Label("loop")
	a.Op(vm.DUP1, vm.ISZERO).PushLabel("done").Op(vm.JUMPI)
	a.Op(vm.GAS, vm.DUP2, vm.SSTORE) // sstore(slot=n, value=gas left: always non-zero and gas dependent)
	a.Push(1).Op(vm.SWAP1, vm.SUB)
	a.PushLabel("loop").Op(vm.JUMP)
	a.Label("done")
	a.Push(1).Push(0).Op(vm.MSTORE).Push(32).Push(0).Op(vm.RETURN)
	return a.Bytes()
}

// TmplNest: word0 = depth d. d>0: CALL self with d-1 forwarding all gas, then SSTORE(d, 1) (needs gas left
// after the child returned: 63/64 rule), return child's success flag. d==0: SSTORE(0x100, 1); LOG0.
func TmplNest() []byte {
	a := NewAsm()
	a.Push(0).Op(vm.CALLDATALOAD, vm.DUP1, vm.ISZERO).PushLabel("leaf").Op(vm.JUMPI)
	// mem[0] = d-1
	a.Push(1).Op(vm.DUP2, vm.SUB).Push(0).Op(vm.MSTORE)
	a.Push(32).Push(0).Push(32).Push(0).Push(0).Op(vm.ADDRESS, vm.GAS, vm.CALL) // out 0..32 <- child's return
	a.Op(vm.SWAP1)                                                                // d on top
	a.Push(1).Op(vm.SWAP1, vm.SSTORE)                                             // sstore(d,1)
	a.Push(0).Op(vm.MSTORE).Push(32).Push(0).Op(vm.RETURN)
	a.Label("leaf")
	a.Push(1).Push(0x100).Op(vm.SSTORE)
	a.Push(0).Push(0).Op(vm.LOG0)
	a.Push(1).Push(0).Op(vm.MSTORE).Push(32).Push(0).Op(vm.RETURN)
	return a.Bytes()
}

func init() {
	templates["env"] = TmplEnv
	templates["gasbr"] = TmplGasBranch
	templates["nest"] = TmplNest
	TemplateNames = append(TemplateNames, "env", "gasbr", "nest")
	opHandlers["q"] = opQuery
	Arms["C08"] = &Arm{Gen: genC08, Run: runC08}
}

// C08State is the per-run state of the query oracles.
type C08State struct {
	Queued   map[string][]*Op
	Answers  map[string]string // request key -> canonical answer
	AnsHead  map[string]int64  // head height when the answer was recorded
	Included []inclTx
	Predict  *prediction
	Queries  int
}

type inclTx struct {
	Height int64
	Pos    int
	Hash   common.Hash
}

type prediction struct {
	Kind    string // call | estimate
	Hash    common.Hash
	Answer  *ethAnswer
	Gas     uint64
	Note    string
	OpIdx   int
	AtHead  int64
	Applied bool
}

type ethAnswer struct {
	Err     string // error class of the query itself ("" = answered)
	Ret     []byte
	VmError string
	GasUsed uint64
	Logs    []*ethtypes.Log
}

func (a *ethAnswer) String() string {
	var sb strings.Builder
	fmt.Fprintf(&sb, "err=%q vmerr=%q gas=%d ret=%x logs=", a.Err, a.VmError, a.GasUsed, a.Ret)
	for _, l := range a.Logs {
		fmt.Fprintf(&sb, "[%x %x %x]", l.Address[:], l.Topics, l.Data)
	}
	return sb.String()
}

func (w *World) q() *C08State {
	if w.Q == nil {
		w.Q = &C08State{Queued: map[string][]*Op{}, Answers: map[string]string{}, AnsHead: map[string]int64{}}
	}
	return w.Q
}

// runPhase executes the queries queued for one point of the block life-cycle.
func (w *World) runPhase(ph string) {
	if w.Q == nil {
		return
	}
	ops := w.Q.Queued[ph]
	if len(ops) == 0 {
		return
	}
	w.Q.Queued[ph] = nil
	for _, op := range ops {
		w.execQuery(op, ph)
	}
}

func opQuery(w *World, op *Op) {
	q := w.q()
	if op.Via != "" {
		q.Queued[op.Via] = append(q.Queued[op.Via], op)
		return
	}
	w.execQuery(op, "")
}

type stateMark struct {
	d    *Dump
	wh   []byte
	cid  []byte
	cver int64
}

func (w *World) markState() *stateMark {
	n := w.C.Node
	save := n.DumpAll
	n.DumpAll = true
	d := n.DumpCommitted()
	n.DumpAll = save
	cid := n.App.LastCommitID()
	return &stateMark{d: d, wh: n.App.CommitMultiStore().WorkingHash(), cid: cid.Hash, cver: cid.Version}
}

// grpcQuery sends a gRPC query through the ABCI Query entry point.
func (w *World) grpcQuery(path string, req proto.Message, height int64) (*abci.ResponseQuery, bool) {
	bz, err := proto.Marshal(req)
	if err != nil {
		panic(err)
	}
	res, qerr, pi := w.C.Node.Query(&abci.RequestQuery{Path: path, Data: bz, Height: height})
	if pi != nil {
		w.R.Violate("C20", "abci_panic", map[string]string{"phase": "Query", "site": panicSite(pi)}, "Query(%s) panicked: %s", path, pi.Value)
		return nil, false
	}
	if qerr != nil || res == nil {
		return &abci.ResponseQuery{Code: 1, Log: fmt.Sprint(qerr)}, true
	}
	return res, true
}

func errClass(log string) string {
	// keep the stable part of an error message (no heights, no addresses)
	for _, k := range []string{"out of gas", "intrinsic gas", "execution reverted", "gas required exceeds allowance", "insufficient", "nonce", "invalid opcode", "failed to load state", "not found", "height"} {
		if strings.Contains(log, k) {
			return k
		}
	}
	if len(log) > 40 {
		return log[:40]
	}
	return log
}

func decodeEthAnswer(res *abci.ResponseQuery) *ethAnswer {
	if res.Code != 0 {
		return &ethAnswer{Err: errClass(res.Log)}
	}
	var r evmtypes.MsgEthereumTxResponse
	if err := proto.Unmarshal(res.Value, &r); err != nil {
		return &ethAnswer{Err: "undecodable response"}
	}
	a := &ethAnswer{Ret: r.Ret, VmError: r.VmError, GasUsed: r.GasUsed}
	if len(r.MarshalledReceipt) > 0 {
		rc := &ethtypes.Receipt{}
		if err := rc.UnmarshalBinary(r.MarshalledReceipt); err == nil {
			a.Logs = rc.Logs
		}
	}
	return a
}

// DecodeDeliveredEth extracts the MsgEthereumTxResponse of a delivered transaction.
func DecodeDeliveredEth(res *abci.ExecTxResult) *evmtypes.MsgEthereumTxResponse {
	if res == nil || len(res.Data) == 0 {
		return nil
	}
	var td sdk.TxMsgData
	if err := proto.Unmarshal(res.Data, &td); err != nil {
		return nil
	}
	for _, a := range td.MsgResponses {
		if strings.HasSuffix(a.TypeUrl, "MsgEthereumTxResponse") {
			var r evmtypes.MsgEthereumTxResponse
			if err := proto.Unmarshal(a.Value, &r); err == nil {
				return &r
			}
		}
	}
	return nil
}

func (w *World) callArgs(op *Op, gas uint64, price *big.Int) (*evmtypes.TransactionArgs, []byte) {
	wl := w.wallet(op.W)
	args := &evmtypes.TransactionArgs{From: &wl.Addr}
	var data []byte
	if op.Init != "" {
		data = InitCodeFor(templates[op.Init](), nil)
	} else {
		data = w.resolveData(op.Data)
		if to, ok := w.ResolveAddr(op.To); ok {
			args.To = &to
		}
	}
	hb := hexutil.Bytes(data)
	args.Input = &hb
	g := hexutil.Uint64(gas)
	args.Gas = &g
	if price != nil {
		args.GasPrice = (*hexutil.Big)(price)
	}
	v := relNum(op.Val, new(big.Int), "_")
	args.Value = (*hexutil.Big)(v)
	return args, data
}

func (w *World) headHeight() int64 { return w.C.Node.App.LastBlockHeight() }

// execQuery runs one query op and the around-the-call oracles.
func (w *World) execQuery(op *Op, phase string) {
	if w.C.Halted {
		return
	}
	r := w.R
	q := w.q()
	q.Queries++
	kind := op.Mut
	r.At(w.C.Height, -1)
	head := w.headHeight()
	reqH := int64(op.Ref) // absolute height; 0 = latest
	if reqH > head {
		reqH = 0
	}
	absH := reqH
	if absH == 0 {
		absH = head
	}
	before := w.markState()
	answer, key := "", ""
	switch kind {
	case "call", "estimate":
		gas := relNum(op.Gas, big.NewInt(300000), "i").Uint64()
		price := new(big.Int).Add(w.BaseFee(), big.NewInt(1))
		if op.Price == "0" {
			price = nil
		}
		args, _ := w.callArgs(op, gas, price)
		if kind == "estimate" {
			args.Gas = nil
		}
		bz, _ := json.Marshal(args)
		path := "/ethermint.evm.v1.Query/EthCall"
		if kind == "estimate" {
			path = "/ethermint.evm.v1.Query/EstimateGas"
		}
		res, ok := w.grpcQuery(path, &evmtypes.EthCallRequest{Args: bz, GasCap: 25_000_000}, reqH)
		if !ok {
			return
		}
		if kind == "call" {
			answer = decodeEthAnswer(res).String()
		} else {
			answer = fmt.Sprintf("code=%d %x %s", res.Code, res.Value, errClass(res.Log))
		}
		// the gas price follows the head's base fee: only price-free requests are comparable across heads
		if price == nil {
			key = fmt.Sprintf("%s|%d|%x", kind, absH, sha(bz))
		} else {
			key = fmt.Sprintf("%s|%d|%x|head%d", kind, absH, sha(bz), head)
		}
	case "trace_tx", "trace_block":
		if len(q.Included) == 0 {
			return
		}
		// stable selection: the same op re-issued later traces the same transaction
		idx := op.W
		if idx < 0 || idx >= len(q.Included) {
			idx = len(q.Included) - 1
			if op.W < 64 {
				return
			}
		}
		it := q.Included[idx]
		rec := w.recordAt(it.Height)
		if rec == nil || rec.Height < 2 {
			return // the pre-state of block 1 is the genesis state, which has no queryable version
		}
		txs := ParseBlock(rec)
		cfg := &evmtypes.TraceConfig{}
		switch op.Typ {
		case 1:
			cfg.Tracer = "callTracer"
		case 2:
			cfg.Tracer = "prestateTracer"
		case 3:
			cfg.EnableMemory, cfg.EnableReturnData = true, true
		}
		var path string
		var req proto.Message
		if kind == "trace_tx" {
			tr := &evmtypes.QueryTraceTxRequest{TraceConfig: cfg, BlockNumber: rec.Height, BlockHash: hex.EncodeToString(rec.Req.Hash), BlockTime: rec.Time, ProposerAddress: rec.Req.ProposerAddress}
			for _, t := range txs {
				if t.Pos == it.Pos {
					tr.Msg = t.EthMsg
					break
				}
				if t.IsEthShape && t.HasReceipt && t.EthTx != nil {
					tr.Predecessors = append(tr.Predecessors, t.EthMsg)
				}
			}
			if tr.Msg == nil {
				return
			}
			path, req = "/ethermint.evm.v1.Query/TraceTx", tr
		} else {
			tb := &evmtypes.QueryTraceBlockRequest{TraceConfig: cfg, BlockNumber: rec.Height, BlockHash: hex.EncodeToString(rec.Req.Hash), BlockTime: rec.Time, ProposerAddress: rec.Req.ProposerAddress}
			for _, t := range txs {
				if t.IsEthShape && t.HasReceipt && t.EthTx != nil {
					tb.Txs = append(tb.Txs, t.EthMsg)
				}
			}
			path, req = "/ethermint.evm.v1.Query/TraceBlock", tb
		}
		res, ok := w.grpcQuery(path, req, rec.Height-1)
		if !ok {
			return
		}
		answer = fmt.Sprintf("code=%d %s %s", res.Code, traceText(res.Value), errClass(res.Log))
		key = fmt.Sprintf("%s|%d|%d|%d", kind, it.Height, it.Pos, op.Typ)
	case "grpc":
		path, req := w.grpcRequest(op)
		if req == nil {
			return
		}
		res, ok := w.grpcQuery(path, req, reqH)
		if !ok {
			return
		}
		answer = fmt.Sprintf("code=%d %x", res.Code, res.Value)
		bz, _ := proto.Marshal(req)
		key = fmt.Sprintf("grpc|%s|%d|%x", path, absH, sha(bz))
	case "checktx":
		// mempool admission with trial execution of a state-changing call; the tx is not kept
		s := w.BuildEthOp(&Op{K: "eth", W: op.W, To: op.To, Init: op.Init, Data: op.Data, Val: op.Val, Gas: "i+300000", Price: "b+1"})
		delete(w.next, op.W)
		res, _, pi := w.C.Node.CheckTx(abciCheckReq(s.Bytes))
		if pi != nil {
			r.Violate("C20", "abci_panic", map[string]string{"phase": "CheckTx", "site": panicSite(pi)}, "CheckTx panicked: %s", pi.Value)
			return
		}
		if res != nil {
			answer = fmt.Sprintf("code=%d", res.Code)
		}
	case "simulate":
		s := w.BuildEthOp(&Op{K: "eth", W: op.W, To: op.To, Init: op.Init, Data: op.Data, Val: op.Val, Gas: "i+300000", Price: "b+1"})
		delete(w.next, op.W)
		res, ok := w.grpcQuery("/cosmos.tx.v1beta1.Service/Simulate", &txtypes.SimulateRequest{TxBytes: s.Bytes}, 0)
		if !ok {
			return
		}
		answer = fmt.Sprintf("code=%d %x %s", res.Code, res.Value, errClass(res.Log))
		// the observer wallet never sends: its simulation depends on the committed state only
		key = fmt.Sprintf("simulate|%d|%x|head%d", absH, sha(s.Bytes), head)
	default:
		panic("harness: unknown query kind " + kind)
	}
	after := w.markState()
	r.Count("o:query_" + kind)
	r.Count("f:query_at_" + phaseName(phase))
	r.Logf("q %s at=%s h=%d head=%d -> %x", kind, phase, reqH, head, sha([]byte(answer)))
	// (1) committed state untouched
	if d := Diff(before.d, after.d); len(d) > 0 {
		r.Violate("C08", "query_changed_state", map[string]string{"kind": kind, "store": d[0].Store}, "%s at phase %q changed %d keys of the committed state, first %s", kind, phase, len(d), d[0])
	} else if !bytes.Equal(before.wh, after.wh) || !bytes.Equal(before.cid, after.cid) || before.cver != after.cver {
		r.Violate("C08", "query_changed_app_hash", map[string]string{"kind": kind}, "%s at phase %q changed the working hash %x -> %x / commit id %x@%d -> %x@%d", kind, phase, before.wh, after.wh, before.cid, before.cver, after.cid, after.cver)
	}
	// (3) the answer is a function of (committed state at the requested height, request)
	if key != "" {
		if prev, ok := q.Answers[key]; ok {
			r.Probe("query_repeated_at_another_point", true)
			r.Probe("query_repeated_after_head_advanced", q.AnsHead[key] != head)
			r.Probe("ctx_query_repeated_after_head_advanced", q.AnsHead[key] != head && strings.HasPrefix(op.Note, "ctx:"))
			if prev != answer {
				moved := "same_head"
				if q.AnsHead[key] != head {
					moved = "head_advanced"
				}
				da, db := diffWindow(prev, answer)
				reads := op.Note
				if reads == "" {
					reads = "state_only"
				}
				r.Violate("C08", "answer_depends_on_more_than_state_and_request", map[string]string{"kind": kind, "reads": reads, "when": moved},
					"%s for height %d answered differently when asked again (head %d -> %d):\n   first : %s\n   second: %s", kind, absH, q.AnsHead[key], head, clip(da), clip(db))
			}
		} else {
			q.Answers[key] = answer
			q.AnsHead[key] = head
		}
	}
}

func clip(s string) string {
	if len(s) > 400 {
		return s[:400] + "..."
	}
	return s
}

// traceText is the JSON payload of a trace response (bounded).
func traceText(v []byte) string {
	var r evmtypes.QueryTraceTxResponse
	if err := proto.Unmarshal(v, &r); err != nil {
		return fmt.Sprintf("%x", sha(v))
	}
	if len(r.Data) > 30000 {
		return fmt.Sprintf("%s...#%x", r.Data[:30000], sha(r.Data))
	}
	return string(r.Data)
}

// diffWindow shows where two answers start to differ.
func diffWindow(a, b string) (string, string) {
	i := 0
	for i < len(a) && i < len(b) && a[i] == b[i] {
		i++
	}
	lo := i - 120
	if lo < 0 {
		lo = 0
	}
	cut := func(s string) string {
		hi := i + 200
		if hi > len(s) {
			hi = len(s)
		}
		if lo > len(s) {
			return ""
		}
		return s[lo:hi]
	}
	return cut(a), cut(b)
}

func phaseName(p string) string {
	if p == "" {
		return "between_blocks"
	}
	return p
}

func (w *World) recordAt(h int64) *BlockRecord {
	for _, rec := range w.C.Records {
		if rec.Height == h && rec.Res != nil {
			return rec
		}
	}
	return nil
}

func (w *World) grpcRequest(op *Op) (string, proto.Message) {
	addr, _ := w.ResolveAddr(op.To)
	switch op.Typ % 9 {
	case 0:
		return "/ethermint.evm.v1.Query/Account", &evmtypes.QueryAccountRequest{Address: addr.Hex()}
	case 1:
		return "/ethermint.evm.v1.Query/Balance", &evmtypes.QueryBalanceRequest{Address: addr.Hex()}
	case 2:
		return "/ethermint.evm.v1.Query/Code", &evmtypes.QueryCodeRequest{Address: addr.Hex()}
	case 3:
		return "/ethermint.evm.v1.Query/Storage", &evmtypes.QueryStorageRequest{Address: addr.Hex(), Key: common.BigToHash(big.NewInt(int64(op.W % 9))).Hex()}
	case 4:
		return "/ethermint.evm.v1.Query/Params", &evmtypes.QueryParamsRequest{}
	case 5:
		return "/ethermint.evm.v1.Query/BaseFee", &evmtypes.QueryBaseFeeRequest{}
	case 6:
		return "/ethermint.evm.v1.Query/CosmosAccount", &evmtypes.QueryCosmosAccountRequest{Address: addr.Hex()}
	case 7:
		return "/ethermint.evm.v1.Query/ValidatorAccount", &evmtypes.QueryValidatorAccountRequest{ConsAddress: w.G.Validators[0].ConsAddr().String()}
	default:
		return "/ethermint.evm.v1.Query/Account", &evmtypes.QueryAccountRequest{Address: addr.Hex()}
	}
}

// opPredict: eth_call / eth_estimateGas now, then the same call is delivered as the first tx of the next block.
func opPredict(w *World, op *Op) {
	q := w.q()
	if w.C.Halted || q.Predict != nil || len(w.Pending) > 0 {
		return
	}
	r := w.R
	kind := op.Mut
	gas := relNum(op.Gas, big.NewInt(300000), "i").Uint64()
	price := new(big.Int).Add(w.BaseFee(), big.NewInt(1))
	fp := w.C.Node.App.FeeMarketKeeper.GetParams(w.ctx())
	if f := fp.MinGasPrice.TruncateInt().BigInt(); f.Cmp(price) >= 0 {
		price.Add(f, big.NewInt(1))
	}
	args, data := w.callArgs(op, gas, price)
	if kind == "estimate" && op.Typ != 1 {
		args.Gas = nil // Typ 1: the request carries its own gas allowance (the search is capped by it)
	}
	bz, _ := json.Marshal(args)
	before := w.markState()
	p := &prediction{Kind: kind, Note: op.Note, OpIdx: w.opIdx, AtHead: w.headHeight()}
	if kind == "call" {
		res, ok := w.grpcQuery("/ethermint.evm.v1.Query/EthCall", &evmtypes.EthCallRequest{Args: bz, GasCap: 25_000_000}, 0)
		if !ok {
			return
		}
		p.Answer = decodeEthAnswer(res)
		p.Gas = gas
	} else {
		res, ok := w.grpcQuery("/ethermint.evm.v1.Query/EstimateGas", &evmtypes.EthCallRequest{Args: bz, GasCap: 25_000_000}, 0)
		if !ok {
			return
		}
		if res.Code != 0 {
			r.Count("o:estimate_refused")
			return
		}
		var er evmtypes.EstimateGasResponse
		if err := proto.Unmarshal(res.Value, &er); err != nil {
			return
		}
		p.Gas = er.Gas
	}
	after := w.markState()
	if d := Diff(before.d, after.d); len(d) > 0 || !bytes.Equal(before.wh, after.wh) {
		r.Violate("C08", "query_changed_state", map[string]string{"kind": kind, "store": "?"}, "%s changed the committed state", kind)
	}
	if p.Answer != nil && p.Answer.Err != "" {
		r.Count("o:predict_call_refused")
		return
	}
	// the very same call, signed, goes first into the next block
	wl := w.wallet(op.W)
	delete(w.next, op.W)
	e := &EthTx{Type: 0, Nonce: w.nextNonce(op.W, wl), To: args.To, Value: args.Value.ToInt(), Data: data, Gas: p.Gas, GasPrice: price}
	txbz, tx := BuildEthTx(wl, e)
	delete(w.next, op.W)
	p.Hash = tx.Hash()
	q.Predict = p
	w.Pending = append([][]byte{txbz}, w.Pending...)
	w.PendIdx = append([]int{-1}, w.PendIdx...)
	r.Count("o:predict_" + kind)
	r.Logf("predict %s gas=%d hash=%x", kind, p.Gas, p.Hash[:4])
}

func sameLogs(a, b []*ethtypes.Log) bool {
	if len(a) != len(b) {
		return false
	}
	for i := range a {
		if a[i].Address != b[i].Address || !bytes.Equal(a[i].Data, b[i].Data) || len(a[i].Topics) != len(b[i].Topics) {
			return false
		}
		for j := range a[i].Topics {
			if a[i].Topics[j] != b[i].Topics[j] {
				return false
			}
		}
	}
	return true
}

// c08AfterBlock records included txs and settles the pending prediction.
func c08AfterBlock(w *World, rec *BlockRecord, txs []*TxInfo) {
	q := w.q()
	r := w.R
	for _, t := range txs {
		if t.IsEthShape && t.HasReceipt && t.EthTx != nil {
			q.Included = append(q.Included, inclTx{rec.Height, t.Pos, t.EthTx.Hash()})
		}
	}
	p := q.Predict
	if p == nil {
		return
	}
	q.Predict = nil
	if len(txs) == 0 || txs[0].EthTx == nil || txs[0].EthTx.Hash() != p.Hash {
		r.Count("o:predict_not_first")
		return
	}
	t := txs[0]
	r.At(rec.Height, 0)
	if !t.HasEthEvent || !t.HasReceipt {
		if p.Kind == "estimate" && strings.Contains(t.Res.Log, "intrinsic gas") {
			r.Violate("C08", "estimate_too_low", map[string]string{"outcome": "intrinsic_gas", "prog": p.Note}, "delivery with the estimated gas limit %d was rejected: %s", p.Gas, t.Res.Log)
			return
		}
		r.Count("o:predict_not_executed")
		return
	}
	resp := DecodeDeliveredEth(t.Res)
	r.Probe("prediction_settled", true)
	if p.Kind == "estimate" {
		r.Probe("estimate_delivered", true)
		if strings.Contains(t.Rc.Err, "out of gas") {
			r.Violate("C08", "estimate_too_low", map[string]string{"outcome": "out_of_gas", "prog": p.Note}, "eth_estimateGas returned %d; delivering the same call on the same state with that gas limit ran out of gas (gas used %d)", p.Gas, t.Rc.GasUsed)
		} else if t.Rc.HasErr {
			r.Cross["c08:estimate_delivery_vm_error:"+errClass(t.Rc.Err)]++
		}
		return
	}
	a := p.Answer
	got := &ethAnswer{VmError: t.Rc.Err, GasUsed: t.Rc.GasUsed, Logs: t.Rc.Receipt.Logs}
	if resp != nil {
		got.Ret = resp.Ret
		got.VmError = resp.VmError
	}
	if a.VmError != got.VmError {
		r.Violate("C08", "prediction_differs", map[string]string{"field": "vm_error", "prog": p.Note}, "eth_call predicted vm error %q, delivery on the same state gave %q", a.VmError, got.VmError)
		return
	}
	if !bytes.Equal(a.Ret, got.Ret) {
		r.Violate("C08", "prediction_differs", map[string]string{"field": "return_data", "prog": p.Note}, "eth_call returned %x, delivery on the same state returned %x", a.Ret, got.Ret)
	}
	if !sameLogs(a.Logs, got.Logs) {
		r.Violate("C08", "prediction_differs", map[string]string{"field": "logs", "prog": p.Note}, "eth_call produced %d logs, delivery %d (or different contents)", len(a.Logs), len(got.Logs))
	}
	if a.GasUsed != got.GasUsed {
		r.Violate("C08", "prediction_differs", map[string]string{"field": "gas_used", "prog": p.Note}, "eth_call used %d gas with gas limit %d, delivery of the same call with the same limit used %d", a.GasUsed, p.Gas, got.GasUsed)
	}
}

// ---- phases in the block life-cycle --------------------------------------------------------------------

// ---- generator ------------------------------------------------------------------------------------------

func genQueryTarget(rng *rand.Rand, g *GenesisSpec, obs int) Op {
	op := Op{K: "q", W: obs, Gas: "300000"}
	other := fmt.Sprintf("w%d", rng.IntN(g.Wallets))
	switch k := rng.IntN(100); {
	case k < 12:
		op.To, op.Data, op.Note = "c:store", hexWord(1+rng.IntN(5)), "write_storage"
	case k < 20:
		op.To, op.Data, op.Note = "c:logs", hexWord(pick(rng, 1, 3)), "logs"
	case k < 28:
		op.To, op.Data, op.Note = "c:sd", "{"+other+"}", "selfdestruct"
	case k < 36:
		op.To, op.Data, op.Note = "c:factory", hexWord(0), "create"
	case k < 42:
		op.Init, op.Note, op.Gas = pick(rng, "store", "logs"), "create_tx", "600000"
	case k < 50:
		op.To, op.Data, op.Note = "c:clear", hexWord(1+rng.IntN(8))+hexWord(0), "clear_storage"
	case k < 60: // state-changing precompile call: ERC-20 transfer(other, 7)
		op.To, op.Data, op.Note = "erc20:0", "a9059cbb{"+other+"}"+hexWord(7), "precompile_transfer"
	case k < 66:
		op.To, op.Data, op.Note = "c:revert", "", "revert"
	case k < 88:
		sel := rng.IntN(len(envNames))
		op.To, op.Data, op.Note, op.Price = "c:env", hexWord(sel), "ctx:"+envNames[sel], "0"
	case k < 94:
		op.To, op.Data, op.Note, op.Price = "c:nest", hexWord(1+rng.IntN(4)), "nest", "0"
	default:
		op.To, op.Data, op.Note, op.Price = "c:store", hexWord(9), "write_storage", "0"
	}
	return op
}

func genC08(rng *rand.Rand, seed uint64, tier string) *Script {
	g, _ := mixedGenesis(rng)
	g.Validators = 2 + rng.IntN(3) // proposer rotation matters
	g.Wallets = 6 + rng.IntN(3)
	g.Erc20Native = true
	g.MaxGas = pick(rng, int64(40_000_000), 40_000_000, -1, 3_000_000)
	g.BaseFee = pick(rng, "1000000000", "7", "0")
	g.MinGasPrice = pick(rng, "0", "0", "0.5")
	s := &Script{Prop: "C08", Seed: seed, Gen: g, Extra: map[string]string{}}
	s.Node = NodeOpts{Pruning: "nothing", MinGasPrices: pick(rng, "", "1wei"), IAVLCache: pick(rng, 0, -1)}
	// app.toml query-gas-limit: the Cosmos gas meter of query contexts is finite on some nodes; EVM simulation does not
	// charge it (zero gas configuration), so its answers must not depend on it
	s.Node.QueryGasLimit = pick(rng, uint64(0), 0, 0, 40_000, 300_000, 2_000_000)
	traffic := g.Wallets - 2 // the last two wallets are reserved: observer (never sends) and predictor
	obs, pred := g.Wallets-2, g.Wallets-1
	tg := g
	tg.Wallets = traffic
	phases := []string{"", "pre", "mid", "fin", "post"}
	ops := []Op{{K: "block", Dt: 5}}
	h := 1
	var issued []Op
	nb := 4 + rng.IntN(8)
	for b := 0; b < nb; b++ {
		// prediction first: the predicted tx must be the first of the next block, on exactly this state
		if rng.IntN(2) == 0 {
			p := Op{K: "predict", W: pred, Mut: pick(rng, "call", "call", "estimate"), Typ: rng.IntN(2)}
			switch rng.IntN(9) {
			case 8: // needs much more gas than it uses: reverts / burns everything below a threshold
				p.To, p.Data, p.Gas, p.Note = "c:gate", hexWord(pick(rng, 200000, 90000, 600000))+hexWord(rng.IntN(2)), pick(rng, "800000", "300000", "1000000"), "gas_gate"
			case 0:
				p.To, p.Data, p.Gas, p.Note = "c:nest", hexWord(1+rng.IntN(5)), pick(rng, "120000", "200000", "400000", "70000"), "nest"
			case 1:
				p.To, p.Data, p.Gas, p.Note = "c:gasbr", hexWord(pick(rng, 40000, 90000, 150000))+hexWord(1+rng.IntN(4)), pick(rng, "100000", "200000", "60000"), "gas_branch"
			case 2:
				p.To, p.Data, p.Gas, p.Note = "c:clear", hexWord(1+rng.IntN(8))+hexWord(0), "300000", "refund"
			case 3:
				p.To, p.Data, p.Gas, p.Note = "c:proxy", "{c:proxy}"+hexWord(0)+"{c:store}"+hexWord(0)+hexWord(5), pick(rng, "150000", "90000", "300000"), "proxy_chain"
			case 4:
				p.To, p.Data, p.Gas, p.Note = "c:logs", hexWord(pick(rng, 1, 5, 20)), "300000", "logs"
			case 5:
				p.To, p.Data, p.Gas, p.Note = "erc20:0", "a9059cbb{w0}"+hexWord(3), "200000", "precompile_transfer"
			case 6:
				p.To, p.Data, p.Gas, p.Note = "c:factory", hexWord(pick(rng, 0, 1)), "500000", "create"
			default:
				p.To, p.Data, p.Gas, p.Note = "c:store", hexWord(1+rng.IntN(7)), pick(rng, "100000", "44000", "30000"), "store"
			}
			ops = append(ops, p)
		}
		for i, n := 0, rng.IntN(5); i < n; i++ {
			if rng.IntN(4) == 0 {
				// traffic that reads the block context: its traces must not depend on where the head is
				ops = append(ops, Op{K: "eth", W: rng.IntN(traffic), To: "c:env", Data: hexWord(rng.IntN(len(envNames))), Gas: "i+60000", Price: "b+1"})
				continue
			}
			ops = append(ops, genMixedTx(rng, &tg))
		}
		for i, n := 0, rng.IntN(6); i < n; i++ {
			ph := phases[rng.IntN(len(phases))]
			var qop Op
			switch k := rng.IntN(100); {
			case k < 45:
				qop = genQueryTarget(rng, &g, obs)
				qop.Mut = pick(rng, "call", "call", "call", "estimate")
			case k < 55:
				qop = Op{K: "q", Mut: pick(rng, "trace_tx", "trace_tx", "trace_block"), W: pick(rng, rng.IntN(6), rng.IntN(20), 99), Typ: rng.IntN(4), Note: "trace"}
				if qop.W != 99 {
					issued = append(issued, qop)
				}
			case k < 65:
				qop = Op{K: "q", Mut: "grpc", To: pick(rng, "c:store", "c:clear", "w0", "c:sd", "mod:evm"), Typ: rng.IntN(9), W: rng.IntN(9)}
			case k < 80:
				qop = genQueryTarget(rng, &g, pred)
				qop.Mut, qop.Price = "checktx", ""
			default:
				qop = genQueryTarget(rng, &g, obs)
				qop.Mut, qop.Price = "simulate", ""
			}
			qop.Via = ph
			// a third of the time re-ask an earlier question about the height it was asked for
			if len(issued) > 0 && rng.IntN(3) == 0 {
				qop = issued[rng.IntN(len(issued))]
				qop.Via = ph
			} else if qop.Mut == "call" || qop.Mut == "estimate" || qop.Mut == "grpc" {
				at := h
				if ph == "post" {
					at = h + 1
				}
				if rng.IntN(3) == 0 && h > 2 {
					at = 1 + rng.IntN(h-1) // a historical height
				}
				qop.Ref = at
				issued = append(issued, qop)
			}
			ops = append(ops, qop)
		}
		ops = append(ops, Op{K: "block", Dt: pick(rng, 1, 5, 5, 60), Prop: rng.IntN(5), Byz: rng.IntN(5) == 0})
		h++
	}
	ops = append(ops, Op{K: "block", Dt: 5})
	s.Ops = ops
	return s
}

func runC08(rt *Runtime, r *RunCtx, s *Script) {
	rt.Bubble(s.WallOffsetS, func() {
		w := NewWorld(r, s)
		for i, name := range TemplateNames {
			w.Labels[name] = GenesisContractAddr(i)
		}
		w.OnBlock = append(w.OnBlock, c08AfterBlock)
		checkInit(r, w.C)
		for i := range s.Ops {
			w.Exec(i, &s.Ops[i])
		}
		if w.C.InitErr != nil || w.C.InitPanic != nil {
			return
		}
		// (2) a twin that never served a query, never ran CheckTx, reproduces every app hash
		db := sdkdb.NewMemDB()
		n := NewNode("twin", db, NodeOpts{})
		n.Observe = false
		if _, err, pi := n.InitChain(w.G.InitChain); err != nil || pi != nil {
			return
		}
		for _, rec := range w.C.Records {
			if rec.Res == nil {
				break
			}
			res, err, pi := n.FinalizeBlock(rec.Req)
			if err != nil || pi != nil {
				r.Violate("C08", "twin_failed", nil, "the query-free twin failed at height %d: %v %v", rec.Height, err, pi)
				break
			}
			if _, err, pi := n.Commit(); err != nil || pi != nil {
				break
			}
			r.Count("o:twin_blocks")
			if !bytes.Equal(res.AppHash, rec.Res.AppHash) {
				r.At(rec.Height, -1)
				r.Violate("C08", "twin_diverged", nil, "height %d: app hash %x on the node that served queries, %x on the twin that served none", rec.Height, rec.Res.AppHash, res.AppHash)
				break
			}
		}
		if w.Q != nil {
			r.Probe("queries_served", w.Q.Queries > 0)
		}
	})
}

func init() {
	opHandlers["predict"] = opPredict
}
