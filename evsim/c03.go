package evsim

import (
	"bytes"
	"encoding/hex"
	"fmt"
	"math/big"
	"math/rand/v2"
	"strings"

	cpctypes "github.com/EscanBE/evermint/v12/x/cpc/types"
	abci "github.com/cometbft/cometbft/abci/types"
	sdk "github.com/cosmos/cosmos-sdk/types"
	stakingtypes "github.com/cosmos/cosmos-sdk/x/staking/types"
	"github.com/ethereum/go-ethereum/common"
	"github.com/ethereum/go-ethereum/core/vm"
)

// ---- C03: reverted EVM call frames leave no trace, in any module --------------------------------------
//
// Two oracles. (1) EVM-level effects (storage, code, nonces, balances, logs, refund counter, access-list
// warmth, self-destruct marks) of generated programs whose frames revert, fail or run out of gas at arbitrary
// points are decided by the always-on refinement against go-ethereum (c02.go). (2) Effects made by stateful
// precompiles in OTHER modules are decided by self-witnessing transactions: an orchestrator contract runs up
// to 8 legs; leg k reaches a precompile through its own chain of router frames (some of which revert after
// the call) and performs a marker effect of weight 2^k - an ERC-20 transfer to a sink (bank), an approval
// (cpc allowance store) or a delegation (staking, distribution, bank). Three observations must agree: the
// marker logs of the receipt, the bit pattern found in the other modules' stores, and the set of legs whose
// chain keeps its effects. The top-level gas limit is swept so that execution dies at arbitrary instructions.

// TmplSeq: calldata = word0 end mode | records (target, len, data padded to 32). Calls every record in turn
// (value 0, all gas, result ignored), then ends: 0 STOP, 1 REVERT, 2 INVALID.
func TmplSeq() []byte {
	a := NewAsm()
	a.Push(32) // ptr
	a.Label("loop")
	a.Op(vm.DUP1, vm.CALLDATASIZE, vm.GT, vm.ISZERO).PushLabel("end").Op(vm.JUMPI)
	a.Op(vm.DUP1).Push(32).Op(vm.ADD, vm.CALLDATALOAD) // len, ptr
	a.Op(vm.DUP1)                                      // len, len, ptr
	a.Op(vm.DUP3).Push(64).Op(vm.ADD)                  // ptr+64, len, len, ptr
	a.Push(0).Op(vm.CALLDATACOPY)                      // len, ptr
	a.Push(0).Push(0)                                  // outSize, outOff
	a.Op(vm.DUP3).Push(0)                              // inOff, inSize=len, outOff, outSize, len, ptr
	a.Push(0)                                          // value
	a.Op(vm.DUP7, vm.CALLDATALOAD)                     // target
	a.Op(vm.GAS, vm.CALL, vm.POP)                      // len, ptr
	a.Push(31).Op(vm.ADD).Push(32).Op(vm.SWAP1, vm.DIV).Push(32).Op(vm.MUL)
	a.Push(64).Op(vm.ADD, vm.ADD) // ptr'
	a.PushLabel("loop").Op(vm.JUMP)
	a.Label("end")
	a.Op(vm.POP)
	a.Push(0).Op(vm.CALLDATALOAD, vm.DUP1).Push(1).Op(vm.EQ).PushLabel("rv").Op(vm.JUMPI)
	a.Push(2).Op(vm.EQ).PushLabel("inv").Op(vm.JUMPI)
	a.Op(vm.STOP)
	a.Label("rv")
	a.Push(0).Push(0).Op(vm.REVERT)
	a.Label("inv")
	a.Op(vm.INVALID)
	return a.Bytes()
}

func init() {
	templates["seq"] = TmplSeq
	TemplateNames = append(TemplateNames, "seq")
	opHandlers["wit"] = opWitness
	Arms["C03"] = &Arm{Gen: genC03, Run: runPc(c03AfterBlock)}
}

// WitLeg is one leg of a self-witnessing transaction.
type WitLeg struct {
	K      int
	Kind   string // xfer | appr | dele
	Chain  string
	Caller common.Address
	Arg    common.Address // sink / spender / validator
	Keeps  bool           // no frame of the chain reverts after the call
}

// Witness is attached to the sent transaction.
type Witness struct {
	Legs    []WitLeg
	Sink    common.Address
	Token   common.Address
	EndMode int
	Plenty  bool // the gas limit leaves every leg room to finish
	Seq     common.Address
}

const delegUnit = 1000

// opWitness: K=wit, W sender, A = legs "kind:chain" (index = weight), Ref end mode, Gas.
func opWitness(w *World, op *Op) {
	tokSym := "erc20:0"
	if strings.HasPrefix(op.To, "erc20:") {
		tokSym = op.To
	}
	tok, okT := w.ResolveAddr(tokSym)
	stk, okS := w.ResolveAddr("staking")
	seq := w.Labels["seq"]
	if !okT {
		return
	}
	wit := &Witness{Token: tok, EndMode: op.Ref, Seq: seq, Sink: NewWallet("sink", len(w.Sent)).Addr}
	data := Words(op.Ref)
	record := func(to common.Address, in []byte) {
		data = append(data, Words(to, len(in))...)
		data = append(data, in...)
		data = append(data, make([]byte, (32-len(in)%32)%32)...)
	}
	rep, okR := w.Labels["rep"]
	if strings.Contains(op.Mut, "tb") && okR {
		// before the legs: a frame tries to pay the (still empty) sink a value nobody can afford - the call fails, yet the
		// EVM has looked at the sink (new-account gas rule)
		record(rep, Words(wit.Sink, new(big.Int).Lsh(big.NewInt(1), 200), 1, 0))
	}
	for k, spec := range op.A {
		parts := strings.SplitN(spec, ":", 2)
		kind, chain := parts[0], ""
		if len(parts) > 1 {
			chain = parts[1]
		}
		hops := ParseChain(chain)
		leg := WitLeg{K: k, Kind: kind, Chain: chain, Keeps: true}
		for _, h := range hops {
			if h.Revert {
				leg.Keeps = false
			}
		}
		amt := new(big.Int).Lsh(big.NewInt(1), uint(k))
		var target common.Address
		var inner []byte
		switch kind {
		case "xfer":
			target, leg.Arg = tok, wit.Sink
			inner = CallData("transfer(address,uint256)", wit.Sink, amt)
		case "appr":
			target, leg.Arg = tok, NewWallet("spender", len(w.Sent)*8+k).Addr
			inner = CallData("approve(address,uint256)", leg.Arg, amt)
		case "dele":
			if !okS {
				continue
			}
			target, leg.Arg = stk, w.G.Validators[0].Operator.Addr
			inner = CallData("delegate(address,uint256)", leg.Arg, new(big.Int).Mul(amt, big.NewInt(delegUnit)))
		default:
			panic("harness: unknown witness leg " + kind)
		}
		plan := w.PlanChain(seq, hops, target, inner)
		leg.Caller = plan.Caller
		wit.Legs = append(wit.Legs, leg)
		record(plan.To, plan.Data)
		if strings.Contains(op.Mut, "tm") {
			record(wit.Sink, nil) // the sink is touched by a plain zero-value call between the legs
		}
	}
	if strings.Contains(op.Mut, "ta") {
		record(wit.Sink, nil) // ... and after the last one
	}
	gas := op.Gas
	if gas == "" {
		gas = "i+6000000"
		wit.Plenty = true
	}
	eop := Op{K: "eth", W: op.W, To: seq.Hex(), Data: hex.EncodeToString(data), Gas: gas, Price: "b+1"}
	s := w.BuildEthOp(&eop)
	s.Wit = wit
	w.R.Count("o:witness_txs")
	w.Submit(s, op.Via)
}

func isPow2(x *big.Int) (int, bool) {
	if x.Sign() <= 0 {
		return 0, false
	}
	n := x.BitLen() - 1
	return n, new(big.Int).Lsh(big.NewInt(1), uint(n)).Cmp(x) == 0
}

var topicDelegate = common.BytesToHash(Selector3("Delegate(address,address,uint256)"))

// Selector3 is the full keccak of an event signature.
func Selector3(sig string) []byte { return keccak([]byte(sig)) }

func oracleC03(w *World, rec *BlockRecord, t *TxInfo) {
	if t.EthTx == nil || w.ByHash == nil {
		return
	}
	s := w.ByHash[t.EthTx.Hash()]
	if s == nil || t.Obs == nil || t.Obs.After == nil || !t.HasEthEvent || !t.HasReceipt {
		return
	}
	r := w.R
	r.At(rec.Height, t.Pos)
	// generic rule for every precompile call whose chain reverts after the call: nothing but the fee remains
	if c := s.PcCall; c != nil && c.Plan.Reverted && !c.Plan.Static {
		extra := allowedFeeOnlyDiff(Diff(t.Obs.Before, t.Obs.After), c.EOA)
		r.Count("o:c03_reverted_precompile_calls")
		if len(extra) > 0 {
			r.Violate("C03", "reverted_frame_left_trace", map[string]string{"contract": c.Kind, "method": c.Method, "store": extra[0].Store}, "%s.%s through chain %q (a frame reverts after the call) left %d changed keys, first %s", c.Kind, c.Method, chainStr(c.Plan.Hops), len(extra), extra[0])
		}
		if n := len(t.Rc.Receipt.Logs) - len(c.Plan.MarkerLogs); n != 0 && !t.Rc.HasErr {
			r.Violate("C03", "reverted_frame_left_log", map[string]string{"contract": c.Kind, "method": c.Method}, "%s.%s through chain %q left %d precompile logs in the receipt", c.Kind, c.Method, chainStr(c.Plan.Hops), n)
		}
	}
	wit := s.Wit
	if wit == nil {
		return
	}
	sender := t.From
	pre, post := ViewOf(t.Obs.Before), ViewOf(t.Obs.After)
	// --- observation 3 (used below): what the other modules' own events in the transaction result say about the sink
	evXfer, evMalformed := sinkTransferEvents(t.Res, wit.Sink)
	if t.Rc.HasErr {
		// the whole transaction ended with a VM error: only the nonce increment and the fee remain
		r.Probe("witness_tx_failed_as_a_whole", true)
		if extra := allowedFeeOnlyDiff(Diff(t.Obs.Before, t.Obs.After), sender); len(extra) > 0 {
			r.Violate("C03", "failed_tx_left_trace", map[string]string{"store": extra[0].Store, "vm_error": errClass(t.Rc.Err)}, "the transaction ended with %q but %d keys changed beyond {nonce, fee}, first %s", t.Rc.Err, len(extra), extra[0])
		}
		if len(t.Rc.Receipt.Logs) > 0 {
			r.Violate("C03", "failed_tx_left_log", nil, "the transaction ended with %q but its receipt has %d logs", t.Rc.Err, len(t.Rc.Receipt.Logs))
		}
		if evXfer != 0 || evMalformed != "" {
			r.Violate("C03", "failed_tx_left_module_event", map[string]string{"module": "bank"}, "the transaction ended with %q but its result carries bank events paying the sink (%08b %s)", t.Rc.Err, evXfer, evMalformed)
		}
		return
	}
	// --- observation 1: marker logs
	logBits := map[string]uint64{}
	for _, l := range t.Rc.Receipt.Logs {
		if len(l.Topics) != 3 {
			continue
		}
		val := new(big.Int).SetBytes(l.Data)
		kind := ""
		switch {
		case l.Topics[0] == topicTransfer && l.Address == wit.Token && common.BytesToAddress(l.Topics[2][:]) == wit.Sink:
			kind = "xfer"
		case l.Topics[0] == topicApproval && l.Address == wit.Token:
			kind = "appr"
		case l.Topics[0] == topicDelegate:
			kind = "dele"
			val.Quo(val, big.NewInt(delegUnit))
		default:
			continue
		}
		k, ok := isPow2(val)
		if !ok || k > 7 {
			r.Violate("C03", "witness_log_malformed", map[string]string{"kind": kind}, "marker log of kind %s carries %s, not a leg weight", kind, val)
			continue
		}
		if logBits[kind]&(1<<uint(k)) != 0 {
			r.Violate("C03", "effect_applied_twice", map[string]string{"kind": kind, "seen_in": "logs"}, "leg %d (%s) logged twice", k, kind)
		}
		logBits[kind] |= 1 << uint(k)
	}
	// --- observation 2: the other modules' stores
	stateBits := map[string]uint64{}
	sinkDelta := new(big.Int).Sub(post.Balance(wit.Sink, BaseDenom), pre.Balance(wit.Sink, BaseDenom))
	if sinkDelta.Sign() < 0 || sinkDelta.BitLen() > 8 {
		r.Violate("C03", "witness_state_malformed", map[string]string{"kind": "xfer"}, "sink balance changed by %s", sinkDelta)
	} else {
		stateBits["xfer"] = sinkDelta.Uint64()
	}
	pool := moduleAddr(stakingtypes.BondedPoolName)
	poolDelta := new(big.Int).Sub(post.Balance(pool, BaseDenom), pre.Balance(pool, BaseDenom))
	q, rem := new(big.Int).QuoRem(poolDelta, big.NewInt(delegUnit), new(big.Int))
	if poolDelta.Sign() < 0 || rem.Sign() != 0 || q.BitLen() > 8 {
		r.Violate("C03", "witness_state_malformed", map[string]string{"kind": "dele"}, "bonded pool balance changed by %s", poolDelta)
	} else {
		stateBits["dele"] = q.Uint64()
	}
	if _, ok := stateBits["xfer"]; ok {
		r.Count("o:c03_witness_module_events_checked")
		if evMalformed != "" || evXfer != stateBits["xfer"] {
			r.Violate("C03", "state_and_module_events_disagree", map[string]string{"kind": "xfer"}, "xfer legs: the bank store shows %08b, the bank module's events in the transaction result show %08b %s", stateBits["xfer"], evXfer, evMalformed)
		}
	}
	predicted := map[string]uint64{}
	present := map[string]bool{}
	for _, leg := range wit.Legs {
		present[leg.Kind] = true
		if leg.Keeps {
			predicted[leg.Kind] |= 1 << uint(leg.K)
		}
		if leg.Kind == "appr" {
			key := cpctypes.Erc20CustomPrecompiledContractAllowanceKey(leg.Caller, leg.Arg)
			before, after := t.Obs.Before.Get("cpc", key), t.Obs.After.Get("cpc", key)
			if !bytes.Equal(before, after) {
				v := new(big.Int).SetBytes(after)
				if k, ok := isPow2(v); ok && k == leg.K {
					stateBits["appr"] |= 1 << uint(k)
				} else {
					r.Violate("C03", "witness_state_malformed", map[string]string{"kind": "appr"}, "allowance of leg %d became %s", leg.K, v)
				}
			}
		}
	}
	for _, kind := range []string{"xfer", "appr", "dele"} {
		if !present[kind] {
			if stateBits[kind] != 0 || logBits[kind] != 0 {
				r.Violate("C03", "effect_without_leg", map[string]string{"kind": kind}, "effects of kind %s (state %08b, logs %08b) although the transaction has no such leg", kind, stateBits[kind], logBits[kind])
			}
			continue
		}
		r.Count("o:c03_witness_kinds_checked")
		if stateBits[kind] != logBits[kind] {
			r.Violate("C03", "state_and_logs_disagree", map[string]string{"kind": kind}, "%s legs: stores show %08b, the receipt's logs show %08b (kept by construction: %08b)", kind, stateBits[kind], logBits[kind], predicted[kind])
		}
		if ghost := stateBits[kind] &^ predicted[kind]; ghost != 0 {
			r.Violate("C03", "reverted_frame_left_trace", map[string]string{"contract": "witness", "method": kind, "store": "other_module"}, "%s legs %08b left their effect although a frame of their chain reverted (kept by construction: %08b)", kind, ghost, predicted[kind])
		}
		if wit.Plenty {
			if lost := predicted[kind] &^ stateBits[kind]; lost != 0 {
				r.Violate("C03", "successful_frame_lost_effect", map[string]string{"kind": kind}, "%s legs %08b completed successfully but their effect is missing (present: %08b)", kind, lost, stateBits[kind])
			}
		} else {
			r.Probe("witness_leg_died_of_gas_starvation", predicted[kind]&^stateBits[kind] != 0)
		}
		r.Probe("witness_reverted_leg_checked", predicted[kind] != (1<<uint(len(wit.Legs)))-1)
	}
}

// sinkTransferEvents folds the bank module's events of a transaction result that pay the sink (`transfer` with the
// sink as recipient and `coin_received` with the sink as receiver must tell the same story) into a bit pattern of
// leg weights; anything that is not a set of distinct leg weights is described in the second result.
func sinkTransferEvents(res *abci.ExecTxResult, sink common.Address) (uint64, string) {
	if res == nil {
		return 0, ""
	}
	want := sdk.AccAddress(sink.Bytes()).String()
	var pat [2]uint64
	bad := ""
	for _, ev := range res.Events {
		which, who := -1, ""
		switch ev.Type {
		case "transfer":
			which, who = 0, "recipient"
		case "coin_received":
			which, who = 1, "receiver"
		default:
			continue
		}
		to, amt := "", ""
		for _, a := range ev.Attributes {
			switch a.Key {
			case who:
				to = a.Value
			case "amount":
				amt = a.Value
			}
		}
		if to != want {
			continue
		}
		v, ok := new(big.Int).SetString(strings.TrimSuffix(amt, BaseDenom), 10)
		if !ok {
			bad = "amount " + amt
			continue
		}
		k, ok := isPow2(v)
		if !ok || k > 7 || pat[which]&(1<<uint(k)) != 0 {
			bad = "amount " + amt + " is not a fresh leg weight"
			continue
		}
		pat[which] |= 1 << uint(k)
	}
	if pat[0] != pat[1] && bad == "" {
		bad = fmt.Sprintf("transfer events %08b vs coin_received events %08b", pat[0], pat[1])
	}
	return pat[0], bad
}

func c03AfterBlock(w *World, rec *BlockRecord, txs []*TxInfo) {
	for _, t := range txs {
		oracleC03(w, rec, t)
	}
}

// ---- generator ------------------------------------------------------------------------------------------

func genWitness(rng *rand.Rand, g *GenesisSpec) Op {
	n := 1 + rng.IntN(8)
	var legs []string
	for k := 0; k < n; k++ {
		kind := pick(rng, "xfer", "xfer", "appr", "dele")
		chain := pick(rng, "", "c", "c", "d", "cc", "c.c", "c.d", "d.c", "c!", "c!", "c.c!", "c!.c", "d!", "c.d!", "cc!", "c.c.c!", "c!.d")
		legs = append(legs, kind+":"+chain)
	}
	op := Op{K: "wit", W: rng.IntN(g.Wallets), A: legs, Ref: pick(rng, 0, 0, 0, 0, 1, 2)}
	// EVM-level looks at and touches of the sink around the precompile payments (EIP-158 bookkeeping of an account
	// whose balance is changed behind the StateDB's back, by the bank module)
	op.Mut = pick(rng, "", "", "ta", "tb+ta", "tb+tm", "tb+tm+ta", "tm")
	if rng.IntN(3) == 0 {
		// gas sweep: execution dies at an arbitrary instruction of an arbitrary frame
		op.Gas = fmt.Sprintf("i+%d", 20000+rng.IntN(300000*n))
	}
	return op
}

// genWitnessCalm: a witness transaction in which no frame reverts - a few payments to the fresh sink, looked at before
// and touched between / after (whatever the StateDB remembers about the sink stays alive until the commit).
func genWitnessCalm(rng *rand.Rand, g *GenesisSpec) Op {
	var legs []string
	for k, n := 0, 1+rng.IntN(3); k < n; k++ {
		legs = append(legs, "xfer:"+pick(rng, "", "c", "d", "cc", "c.c"))
	}
	return Op{K: "wit", W: rng.IntN(g.Wallets), A: legs, Mut: pick(rng, "tb+ta", "tb+tm", "tb+tm+ta", "ta", "tb"), Gas: pick(rng, "", "i+900000")}
}

func genC03(rng *rand.Rand, seed uint64, tier string) *Script {
	g := pcGenesis(rng)
	g.Validators = 1 + rng.IntN(2)
	// the random programs of the refinement oracle are part of this arm too
	var eoas []common.Address
	for i := 0; i < g.Wallets; i++ {
		eoas = append(eoas, NewWallet("w", i).Addr)
	}
	for i := 0; i < nRand; i++ {
		c := GenContract{Addr: RandAddr(i).Hex(), Code: hex.EncodeToString(genProgramStyled(rng, i, eoas, nil, pick(rng, 0, 1, 1))), Balance: pick(rng, "", "1000000")}
		if rng.IntN(3) > 0 {
			// committed non-zero slots: clearing them earns refunds, refilling them takes refunds back
			c.Storage = map[string]string{}
			for s := 0; s < 1+rng.IntN(4); s++ {
				c.Storage[fmt.Sprintf("0x%064x", s)] = fmt.Sprintf("0x%064x", pick(rng, 1, 0xff))
			}
		}
		g.Contracts = append(g.Contracts, c)
	}
	s := &Script{Prop: "C03", Seed: seed, Gen: g, Extra: map[string]string{}}
	ops := []Op{{K: "block", Dt: 5}}
	// fund the frames that will act as precompile callers
	for _, c := range []string{"c:seq", "c:router0", "c:router1", "c:router2"} {
		ops = append(ops, Op{K: "bank", W: 1, To: c, Val: "900000000000", Denom: BaseDenom, Price: "b+1", Gas: "200000"})
	}
	ops = append(ops, Op{K: "block", Dt: 5})
	nb := 4 + rng.IntN(8)
	for b := 0; b < nb; b++ {
		for i, n := 0, 1+rng.IntN(5); i < n; i++ {
			switch k := rng.IntN(12); {
			case k >= 10: // EVM-level, with plenty of gas and either mode
				ops = append(ops, Op{K: "eth", W: rng.IntN(g.Wallets), To: RandAddr(rng.IntN(nRand)).Hex(), Typ: pick(rng, 0, 2), Price: "b+1", Tip: "1",
					Gas: pick(rng, "i+400000", "i+2000000"), Val: pick(rng, "0", "0", "1"), Data: hexWord(rng.IntN(2))})
			case k < 5:
				if rng.IntN(6) == 0 {
					ops = append(ops, genWitnessCalm(rng, &g))
				} else {
					ops = append(ops, genWitness(rng, &g))
				}
			case k < 7: // single precompile calls through chains with reverting frames
				ch := pick(rng, "c!", "c.c!", "c!.c", "d!", "c.d!", "cc!", "c+.c!")
				ops = append(ops, genPcCall(rng, &g, ch))
			case k < 9: // EVM-level: generated programs (decided by the refinement oracle)
				ops = append(ops, Op{K: "eth", W: rng.IntN(g.Wallets), To: RandAddr(rng.IntN(nRand)).Hex(), Typ: pick(rng, 0, 2), Price: "b+1", Tip: "1",
					Gas: pick(rng, "i+30000", "i+100000", "i+400000", "i+5000"), Val: pick(rng, "0", "1"), Data: hexWord(rng.IntN(3))})
			default:
				ops = append(ops, genMixedTx(rng, &g))
			}
		}
		ops = append(ops, Op{K: "block", Dt: pick(rng, 1, 5, 5), Prop: rng.IntN(3), Byz: rng.IntN(8) == 0})
		for i, n := 0, pick(rng, 0, 1, 1, 3); i < n; i++ {
			ops = append(ops, genSdbOp(rng)) // StateDB-level sequences over the state reached so far
		}
	}
	ops = append(ops, Op{K: "block", Dt: 5})
	s.Ops = ops
	return s
}
