package evsim

import (
	"context"
	"encoding/json"
	"fmt"
	stdlog "log"
	"math/rand/v2"
	"net"
	"net/http"
	"sort"
	"strings"
	"sync"
	"sync/atomic"
	"time"

	"evsim/simrt"

	"cosmossdk.io/log"
	evrpc "github.com/EscanBE/evermint/v12/rpc"
	srvconfig "github.com/EscanBE/evermint/v12/server/config"
	cmtjrpcclient "github.com/cometbft/cometbft/rpc/jsonrpc/client"
	cmttypes "github.com/cometbft/cometbft/types"
	abci "github.com/cometbft/cometbft/abci/types"
	"github.com/gorilla/websocket"
)

// ---- C20, schedule arm 3: the node's own websocket server (eth_subscribe / eth_unsubscribe / forwarded requests) ------
//
// rpc/websockets.go runs for real: its HTTP handler is served over net.Pipe connections, its subscriptions go through
// its own EventSystem over a real CometBFT WSClient against the wsStub, and whatever is not a subscription is forwarded
// by its own http.Client to a stub JSON-RPC server (the default transport dials a pipe). Client actors subscribe,
// unsubscribe, send ordinary and batch requests and garbage, while a publisher pushes header and tx events of a chain
// decided beforehand. The yield overlay covers package rpc, so subscription goroutines, the read loops and the
// per-connection write mutex are under the scheduler; writes to a connection are probed for the mutex (simrt.Guarded).

type wsLogWriter struct {
	mu    sync.Mutex
	lines []string
}

func (l *wsLogWriter) Write(p []byte) (int, error) {
	l.mu.Lock()
	l.lines = append(l.lines, string(p))
	l.mu.Unlock()
	return len(p), nil
}

func runWSServerScenario(rt *Runtime, r *RunCtx, s *Script) {
	var sc *simrt.Scheduler
	reported := false
	var actorsTotal int
	var done atomic.Int32
	defer func() {
		if sc == nil || reported || !strings.Contains(rt.Infra, "all goroutines in bubble are blocked") {
			return
		}
		rt.Infra = ""
		simrt.Reset()
		SetMapOrder("", 0)
		r.Count("o:wsserver_scenarios")
		for _, p := range sc.Panics {
			r.Violate("C20", "goroutine_panic", map[string]string{"component": "websocket_server", "site": panicSite(&PanicInfo{Stack: p.Stack, Value: p.Value}), "panic": panicKind(p.Value)}, "goroutine %s panicked: %s", p.Goroutine, p.Value)
		}
		if len(sc.Panics) == 0 {
			r.Violate("C20", "deadlock_in_websocket_server", nil, "every goroutine of the websocket server and every client is blocked for ever (%d of %d clients finished); waiting for a mutex: %v", done.Load(), actorsTotal, sc.Waiting())
		}
	}()
	rt.Bubble(0, func() {
		w := NewWorld(r, s)
		for i, name := range TemplateNames {
			w.Labels[name] = GenesisContractAddr(i)
		}
		checkInit(r, w.C)
		var fops []Op
		for i := range s.Ops {
			if s.Ops[i].K == "wss" {
				fops = append(fops, s.Ops[i])
				continue
			}
			w.Exec(i, &s.Ops[i])
		}
		if w.C.Halted || len(w.C.Records) == 0 {
			return
		}
		st14 := w.c14()

		SetMapOrder(pick(newRng(s.Seed), "asc", "desc", "shuffle"), s.Seed)
		defer SetMapOrder("", 0)
		maxSteps := 30000
		simrt.TraceOn = r.KeepLog
		sc = simrt.Start(s.Seed, maxSteps)
		stub := newWSStub()
		ws, err := cmtjrpcclient.NewWS("tcp://127.0.0.1:26657", "/websocket", cmtjrpcclient.MaxReconnectAttempts(0), cmtjrpcclient.PingPeriod(0))
		if err != nil {
			rt.Infra = "NewWS: " + err.Error()
			sc.Stop()
			return
		}
		ws.Dialer = stub.dial
		if err := ws.Start(); err != nil {
			rt.Infra = "WSClient.Start: " + err.Error()
			sc.Stop()
			return
		}

		// the JSON-RPC server behind the websocket server: a stub that answers every request with a sizeable result
		rpcLis := &pipeListener{conns: make(chan net.Conn, 64), done: make(chan struct{})}
		big := strings.Repeat("ab", 20000)
		rpcSrv := &http.Server{Handler: http.HandlerFunc(func(wr http.ResponseWriter, rq *http.Request) {
			var probe struct {
				ID json.RawMessage `json:"id"`
			}
			body := make([]byte, 0, 256)
			buf := make([]byte, 4096)
			for {
				n, e := rq.Body.Read(buf)
				body = append(body, buf[:n]...)
				if e != nil {
					break
				}
			}
			_ = json.Unmarshal(body, &probe)
			if len(probe.ID) == 0 {
				probe.ID = json.RawMessage("null")
			}
			wr.Header().Set("Content-Type", "application/json")
			if isJSONArray(body) {
				_, _ = fmt.Fprintf(wr, `[{"jsonrpc":"2.0","id":1,"result":"0x%s"}]`, big)
				return
			}
			_, _ = fmt.Fprintf(wr, `{"jsonrpc":"2.0","id":%s,"result":"0x%s"}`, probe.ID, big)
		})}
		go func() { _ = rpcSrv.Serve(rpcLis) }()
		tr := http.DefaultTransport.(*http.Transport)
		oldDial, oldKA := tr.DialContext, tr.DisableKeepAlives
		tr.DialContext = func(context.Context, string, string) (net.Conn, error) {
			c1, c2 := net.Pipe()
			rpcLis.conns <- c2
			return c1, nil
		}
		tr.DisableKeepAlives = true
		defer func() {
			tr.CloseIdleConnections()
			tr.DialContext, tr.DisableKeepAlives = oldDial, oldKA
		}()

		// the websocket server itself
		cfg := srvconfig.DefaultConfig()
		cfg.JSONRPC.Address = "127.0.0.1:8545"
		srv := evrpc.NewWebsocketsServer(st14.cctx, log.NewNopLogger(), ws, cfg)
		handler, ok := srv.(http.Handler)
		if !ok {
			rt.Infra = "the websocket server is not an http.Handler"
			sc.Stop()
			return
		}
		errLog := &wsLogWriter{}
		wsLis := &pipeListener{conns: make(chan net.Conn, 64), done: make(chan struct{})}
		wsSrv := &http.Server{Handler: handler, ErrorLog: stdlog.New(errLog, "", 0)}
		go func() { _ = wsSrv.Serve(wsLis) }()
		dialer := websocket.Dialer{NetDial: func(string, string) (net.Conn, error) {
			c1, c2 := net.Pipe()
			wsLis.conns <- c2
			return c1, nil
		}, HandshakeTimeout: time.Minute}

		actors := map[int][]Op{}
		for _, op := range fops {
			actors[op.W] = append(actors[op.W], op)
		}
		ids := make([]int, 0, len(actors))
		for id := range actors {
			ids = append(ids, id)
		}
		sort.Ints(ids)
		actorsTotal = len(ids)
		// connections are made one after the other before anybody acts: the server's per-connection goroutines get
		// their scheduler identity in this order
		type client struct {
			conn *websocket.Conn
			mu   sync.Mutex
			subs []string
			got  atomic.Int64
			bad  atomic.Int64
		}
		clients := map[int]*client{}
		for _, id := range ids {
			c, _, err := dialer.Dial("ws://node/", nil)
			if err != nil {
				rt.Infra = "websocket dial: " + err.Error()
				sc.Stop()
				return
			}
			cl := &client{conn: c}
			clients[id] = cl
			go func() { // reader: everything the server writes must be one well-formed JSON value per frame
				for {
					_, msg, err := c.ReadMessage()
					if err != nil {
						return
					}
					cl.got.Add(1)
					var v struct {
						ID     json.RawMessage `json:"id"`
						Result json.RawMessage `json:"result"`
					}
					if json.Unmarshal(msg, &v) != nil && !isJSONArray(msg) {
						cl.bad.Add(1)
						continue
					}
					var sid string
					if json.Unmarshal(v.Result, &sid) == nil && strings.HasPrefix(sid, "0x") && len(sid) < 80 {
						cl.mu.Lock()
						cl.subs = append(cl.subs, sid)
						cl.mu.Unlock()
					}
				}
			}()
		}
		doneCh := make(chan struct{}, 64)
		for _, id := range ids {
			ops := actors[id]
			id := id
			cl := clients[id]
			simrt.Go(fmt.Sprintf("wsclient%d", id), func() {
				defer func() { done.Add(1); doneCh <- struct{}{} }()
				next := 0
				send := func(s string) { _ = cl.conn.WriteMessage(websocket.TextMessage, []byte(s)) }
				for n, op := range ops {
					simrt.Yield("wsclient:op")
					switch op.Mut {
					case "publish":
						if next >= len(w.C.Records) {
							continue
						}
						rec := w.C.Records[next]
						next++
						if rec.Res == nil {
							continue
						}
						stub.push(qHeader, cmttypes.EventDataNewBlockHeader{Header: rec.Block.Header}, nil)
						for i, tx := range rec.Req.Txs {
							var res abci.ExecTxResult
							if i < len(rec.Res.TxResults) {
								res = *rec.Res.TxResults[i]
							}
							data := cmttypes.EventDataTx{TxResult: abci.TxResult{Height: rec.Height, Index: uint32(i), Tx: tx, Result: res}}
							stub.push(qTx, data, nil)
							for _, e := range res.Events {
								if e.Type == "message" {
									for _, a := range e.Attributes {
										if a.Key == "module" && a.Value == "evm" {
											stub.push(qEvm, data, nil)
										}
									}
								}
							}
						}
						simrt.Yield("wsclient:published")
					case "sub_heads":
						send(fmt.Sprintf(`{"jsonrpc":"2.0","id":%d,"method":"eth_subscribe","params":["newHeads"]}`, n+1))
					case "sub_logs":
						send(fmt.Sprintf(`{"jsonrpc":"2.0","id":%d,"method":"eth_subscribe","params":["logs",%s]}`, n+1, pick(newRng(uint64(op.Ref)), `{}`, `{"topics":[]}`, `{"address":"0xc0de000000000000000000000000000000000002"}`, `{"address":["0xc0de000000000000000000000000000000000002"],"topics":[null,["0x0000000000000000000000000000000000000000000000000000000000000abc"]]}`, `{"address":7}`, `{"topics":[7]}`, `7`)))
					case "sub_pending":
						send(fmt.Sprintf(`{"jsonrpc":"2.0","id":%d,"method":"eth_subscribe","params":["newPendingTransactions"]}`, n+1))
					case "sub_odd":
						send(fmt.Sprintf(`{"jsonrpc":"2.0","id":%d,"method":"eth_subscribe","params":%s}`, n+1, pick(newRng(uint64(op.Ref)), `["syncing"]`, `[]`, `["nothing"]`, `[7]`, `{}`)))
					case "unsub":
						cl.mu.Lock()
						sid := "0x0"
						if len(cl.subs) > 0 {
							sid = cl.subs[op.Ref%len(cl.subs)]
						}
						cl.mu.Unlock()
						send(fmt.Sprintf(`{"jsonrpc":"2.0","id":"%d","method":"eth_unsubscribe","params":["%s"]}`, n+1, sid))
					case "fwd":
						send(fmt.Sprintf(`{"jsonrpc":"2.0","id":%d,"method":"eth_blockNumber","params":[]}`, n+1))
					case "batch":
						send(fmt.Sprintf(`[{"jsonrpc":"2.0","id":%d,"method":"eth_blockNumber","params":[]}]`, n+1))
					case "garbage":
						send(pick(newRng(uint64(op.Ref)), `{`, `{"id":{},"method":"eth_subscribe"}`, `{"id":1}`, `{"id":"x","method":"eth_unsubscribe","params":[7]}`, `{"id":1,"method":"eth_unsubscribe"}`, `[`, ``, `{"id":1,"method":7}`))
					case "sleep":
						time.Sleep(time.Duration(1+op.Ref%30) * time.Second)
						simrt.Yield("wsclient:woke")
					case "close":
						_ = cl.conn.Close()
						return
					}
				}
			})
		}
		for i := 0; i < len(ids); i++ {
			<-doneCh
		}
		finished := int(done.Load()) == len(ids) && !sc.Exhausted
		// let what is in flight drain: a few fake seconds with the scheduler still deciding
		if finished {
			for k := 0; k < 20 && !sc.Exhausted; k++ {
				time.Sleep(50 * time.Millisecond)
				simrt.Yield("root:drain")
			}
		}
		reported = true
		digest, steps := sc.Digest(), sc.Step
		waitingAtEnd := sc.Waiting()
		for _, cl := range clients {
			_ = cl.conn.Close()
		}
		_ = ws.Stop()
		stub.close()
		_ = wsSrv.Close()
		_ = wsLis.Close()
		_ = rpcSrv.Close()
		_ = rpcLis.Close()
		sc.Stop()
		r.SimSecs += 60
		r.Count("o:wsserver_scenarios")
		r.Add("o:wsserver_scheduler_steps", int64(steps))
		var frames, badFrames int64
		for _, cl := range clients {
			frames += cl.got.Load()
			badFrames += cl.bad.Load()
		}
		r.Add("o:wsserver_frames_received", frames)
		r.State("wsched:" + digest[:16])
		r.Logf("websocket server scenario steps=%d digest=%s frames=%d finished=%v", steps, digest, frames, finished)
		if r.KeepLog {
			r.LogLines = append(r.LogLines, sc.Trace...)
		}
		for _, p := range sc.Panics {
			r.Violate("C20", "goroutine_panic", map[string]string{"component": "websocket_server", "site": panicSite(&PanicInfo{Stack: p.Stack, Value: p.Value}), "panic": panicKind(p.Value)}, "goroutine %s panicked: %s", p.Goroutine, p.Value)
		}
		errLog.mu.Lock()
		for _, l := range errLog.lines {
			if strings.Contains(l, "panic serving") {
				first := strings.SplitN(l, "\n", 2)[0]
				r.Violate("C20", "rpc_panic", map[string]string{"where": "websocket_read_loop", "site": panicKind(first)}, "the read loop of a websocket connection panicked (net/http recovered it: the connection is left hanging): %s", clip(first))
				break
			}
		}
		errLog.mu.Unlock()
		seen := map[string]bool{}
		for _, f := range sc.Findings {
			if !seen[f] {
				seen[f] = true
				r.Violate("C20", "lock_discipline", map[string]string{"component": "websocket_server", "what": strings.SplitN(f, "@", 2)[0]}, "%s", f)
			}
		}
		if badFrames > 0 {
			r.Violate("C20", "malformed_websocket_frame", nil, "%d frames received from the websocket server are not well-formed JSON", badFrames)
		}
		if finished && len(waitingAtEnd) > 0 {
			r.Violate("C20", "goroutine_waits_for_lock_forever", map[string]string{"component": "websocket_server"}, "after all clients finished, goroutines still wait for a mutex nobody releases: %v", waitingAtEnd)
		}
		if !finished {
			if int(done.Load()) == len(ids) {
				r.Violate("C20", "goroutine_never_stops_running", map[string]string{"component": "websocket_server", "file": strings.SplitN(sc.HotSite(), ":", 2)[0]}, "all %d clients finished, but the websocket server kept running for %d scheduler steps without pause; busiest scheduling point: %s", len(ids), maxSteps, sc.HotSite())
			} else {
				r.Violate("C20", "no_progress_in_websocket_server", nil, "%d of %d clients did not finish within %d scheduler steps (waiting for a mutex: %v)", len(ids)-int(done.Load()), len(ids), maxSteps, waitingAtEnd)
			}
		}
	})
}

func isJSONArray(b []byte) bool {
	for _, c := range b {
		if c == ' ' || c == '\t' || c == '\r' || c == '\n' {
			continue
		}
		return c == '['
	}
	return false
}

func genWSServerScript(rng *rand.Rand, seed uint64) *Script {
	g, _ := mixedGenesis(rng)
	g.MaxGas = 40_000_000
	g.BaseFee, g.MinGasPrice = "1000000000", "0"
	s := &Script{Prop: "C20", Seed: seed, Gen: g, Extra: map[string]string{"sched": "wsserver"}}
	ops := []Op{{K: "block", Dt: 5}}
	for b, nb := 0, 2+rng.IntN(4); b < nb; b++ {
		for i, n := 0, rng.IntN(5); i < n; i++ {
			switch rng.IntN(6) {
			case 0:
				ops = append(ops, Op{K: "shape", Mut: pick(rng, "zero_msgs", "zero_msgs_eth_ext", "unknown_type_url", "no_auth_info")})
			case 1:
				ops = append(ops, Op{K: "badeth", W: rng.IntN(g.Wallets), Mut: pick(rng, "garbage_payload", "empty_payload", "truncated_payload"), Hex: randHex(rng, 20)})
			case 2:
				ops = append(ops, Op{K: "eth", W: rng.IntN(g.Wallets), To: "c:logs", Data: hexWord(pick(rng, 1, 2, 3)), Gas: "i+200000", Price: "b+1", Tip: "1"})
			default:
				ops = append(ops, genMixedTx(rng, &g))
			}
		}
		ops = append(ops, Op{K: "block", Dt: 5, Byz: rng.IntN(2) == 0})
	}
	na := 2 + rng.IntN(3)
	for a := 0; a < na; a++ {
		for i, n := 0, 3+rng.IntN(12); i < n; i++ {
			op := Op{K: "wss", W: a, Ref: rng.IntN(40)}
			if a == 0 {
				op.Mut = pick(rng, "publish", "publish", "publish", "sub_heads", "fwd", "sleep")
			} else {
				op.Mut = pick(rng, "sub_heads", "sub_logs", "sub_pending", "sub_odd", "unsub", "unsub", "fwd", "fwd", "fwd", "batch", "garbage", "sleep")
			}
			ops = append(ops, op)
		}
		if a > 0 && rng.IntN(3) == 0 {
			ops = append(ops, Op{K: "wss", W: a, Mut: "close"})
		}
	}
	s.Ops = ops
	return s
}
