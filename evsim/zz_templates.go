package evsim

// Templates added after the first findings were recorded are registered here, in a file that sorts last, so that the
// genesis-contract addresses of the older templates (and with them every recorded replay file) stay what they were.
func init() {
	templates["fwd"] = TmplFwd
	templates["vw"] = TmplViewWit
	TemplateNames = append(TemplateNames, "fwd", "vw")
}
