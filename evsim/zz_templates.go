package evsim

import "github.com/ethereum/go-ethereum/core/vm"

// Templates added after the first findings were recorded are registered here, in a file that sorts last, so that the
// genesis-contract addresses of the older templates (and with them every recorded replay file) stay what they were.
// TmplSlotWriter: calldata = key | value | mode. SSTORE(key, value); mode != 0: SELFDESTRUCT(caller) afterwards.
// Reaches the slots at the ends of the key space (0, 2^256-1) that the fixed templates never touch.
func TmplSlotWriter() []byte {
	a := NewAsm()
	a.Push(0x20).Op(vm.CALLDATALOAD).Push(0).Op(vm.CALLDATALOAD, vm.SSTORE)
	a.Push(0x40).Op(vm.CALLDATALOAD, vm.ISZERO).PushLabel("end").Op(vm.JUMPI)
	a.Op(vm.CALLER, vm.SELFDESTRUCT)
	a.Label("end").Op(vm.STOP)
	return a.Bytes()
}

// TmplGasGate: calldata = threshold | mode. With at least threshold gas left: SSTORE(0, 1), STOP - cheap work. With
// less: mode 0 REVERT, mode 1 burn everything (loop until out of gas). The gas limit such a call needs is far above
// the gas it uses (meta-transaction forwarders, multisig wallets reserve gas like this).
func TmplGasGate() []byte {
	a := NewAsm()
	a.Push(0).Op(vm.CALLDATALOAD, vm.GAS, vm.LT).PushLabel("poor").Op(vm.JUMPI)
	a.Push(1).Push(0).Op(vm.SSTORE, vm.STOP)
	a.Label("poor")
	a.Push(32).Op(vm.CALLDATALOAD).PushLabel("burn").Op(vm.JUMPI)
	a.Push(0).Push(0).Op(vm.REVERT)
	a.Label("burn")
	a.PushLabel("burn").Op(vm.JUMP)
	return a.Bytes()
}

// TmplRepeat: calldata = target | value | count | argument. CALLs target count times with that value and the one-word
// argument (a contract that self-destructs again and again while value keeps arriving, a token spent in slices, ...).
func TmplRepeat() []byte {
	a := NewAsm()
	a.Push(96).Op(vm.CALLDATALOAD).Push(0).Op(vm.MSTORE)
	a.Push(64).Op(vm.CALLDATALOAD) // i
	a.Label("loop")
	a.Op(vm.DUP1, vm.ISZERO).PushLabel("end").Op(vm.JUMPI)
	a.Push(0).Push(0).Push(32).Push(0).Push(32).Op(vm.CALLDATALOAD).Push(0).Op(vm.CALLDATALOAD).Op(vm.GAS, vm.CALL, vm.POP)
	a.Push(1).Op(vm.SWAP1, vm.SUB)
	a.PushLabel("loop").Op(vm.JUMP)
	a.Label("end").Op(vm.STOP)
	return a.Bytes()
}

// TmplCallThenDie: calldata = target | die | inner call data. CALLs target with the inner data (value 0) and, when die != 0,
// self-destructs to the caller afterwards: an owner of allowances / delegations that ceases to exist.
func TmplCallThenDie() []byte {
	a := NewAsm()
	a.Push(64).Op(vm.CALLDATASIZE, vm.SUB)             // insize
	a.Op(vm.DUP1).Push(64).Push(0).Op(vm.CALLDATACOPY) // insize
	a.Push(0).Push(0).Op(vm.DUP3).Push(0).Push(0).Push(0).Op(vm.CALLDATALOAD).Op(vm.GAS, vm.CALL, vm.POP, vm.POP)
	a.Push(32).Op(vm.CALLDATALOAD, vm.ISZERO).PushLabel("end").Op(vm.JUMPI)
	a.Op(vm.CALLER, vm.SELFDESTRUCT)
	a.Label("end").Op(vm.STOP)
	return a.Bytes()
}

func init() {
	templates["fwd"] = TmplFwd
	templates["vw"] = TmplViewWit
	templates["slotw"] = TmplSlotWriter
	templates["gate"] = TmplGasGate
	templates["rep"] = TmplRepeat
	templates["callsd"] = TmplCallThenDie
	TemplateNames = append(TemplateNames, "fwd", "vw", "slotw", "gate", "rep", "callsd")
}
