package evsim

import "github.com/ethereum/go-ethereum/core/vm"

// Templates added after the first findings were recorded are registered here, in a file that sorts last, so that the
// genesis-contract addresses of the older templates (and with them every recorded replay file) stay what they were.
// TmplSlotWriter: calldata = key | value | mode. SSTORE(key, value); mode != 0: SELFDESTRUCT(caller) afterwards.
// Reaches the slots at the ends of the key space (0, 2^256-1) that the fixed templates never touch.
func TmplSlotWriter() []byte {
	a := NewAsm()
	a.Push(0x20).Op(vm.CALLDATALOAD).Push(0).Op(vm.CALLDATALOAD, vm.SSTORE)
	a.Push(0x40).Op(vm.CALLDATALOAD, vm.ISZERO).PushLabel("end").Op(vm.JUMPI)
	a.Op(vm.CALLER, vm.SELFDESTRUCT)
	a.Label("end").Op(vm.STOP)
	return a.Bytes()
}

// TmplGasGate: calldata = threshold | mode. With at least threshold gas left: SSTORE(0, 1), STOP - cheap work. With
// less: mode 0 REVERT, mode 1 burn everything (loop until out of gas). The gas limit such a call needs is far above
// the gas it uses (meta-transaction forwarders, multisig wallets reserve gas like this).
func TmplGasGate() []byte {
	a := NewAsm()
	a.Push(0).Op(vm.CALLDATALOAD, vm.GAS, vm.LT).PushLabel("poor").Op(vm.JUMPI)
	a.Push(1).Push(0).Op(vm.SSTORE, vm.STOP)
	a.Label("poor")
	a.Push(32).Op(vm.CALLDATALOAD).PushLabel("burn").Op(vm.JUMPI)
	a.Push(0).Push(0).Op(vm.REVERT)
	a.Label("burn")
	a.PushLabel("burn").Op(vm.JUMP)
	return a.Bytes()
}

func init() {
	templates["fwd"] = TmplFwd
	templates["vw"] = TmplViewWit
	templates["slotw"] = TmplSlotWriter
	templates["gate"] = TmplGasGate
	TemplateNames = append(TemplateNames, "fwd", "vw", "slotw", "gate")
}
