package evsim

import "github.com/ethereum/go-ethereum/core/vm"

// Templates added after the first findings were recorded are registered here, in a file that sorts last, so that the
// genesis-contract addresses of the older templates (and with them every recorded replay file) stay what they were.
// TmplSlotWriter: calldata = key | value | mode. SSTORE(key, value); mode != 0: SELFDESTRUCT(caller) afterwards.
// Reaches the slots at the ends of the key space (0, 2^256-1) that the fixed templates never touch.
func TmplSlotWriter() []byte {
	a := NewAsm()
	a.Push(0x20).Op(vm.CALLDATALOAD).Push(0).Op(vm.CALLDATALOAD, vm.SSTORE)
	a.Push(0x40).Op(vm.CALLDATALOAD, vm.ISZERO).PushLabel("end").Op(vm.JUMPI)
	a.Op(vm.CALLER, vm.SELFDESTRUCT)
	a.Label("end").Op(vm.STOP)
	return a.Bytes()
}

func init() {
	templates["fwd"] = TmplFwd
	templates["vw"] = TmplViewWit
	templates["slotw"] = TmplSlotWriter
	TemplateNames = append(TemplateNames, "fwd", "vw", "slotw")
}
