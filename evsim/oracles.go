package evsim

import (
	"bytes"
	"crypto/sha256"
	"encoding/hex"
	"fmt"
	"math/big"
	"regexp"
	"sort"
	"strings"

	feemarkettypes "github.com/EscanBE/evermint/v12/x/feemarket/types"
	abci "github.com/cometbft/cometbft/abci/types"
	"github.com/ethereum/go-ethereum/common"
	ethtypes "github.com/ethereum/go-ethereum/core/types"
	ethcrypto "github.com/ethereum/go-ethereum/crypto"
)

func abciCheckReq(bz []byte) *abci.RequestCheckTx {
	return &abci.RequestCheckTx{Tx: bz, Type: abci.CheckTxType_New}
}

func sha(b []byte) []byte {
	h := sha256.Sum256(b)
	return h[:4]
}

var frameRe = regexp.MustCompile(`^(github\.com/EscanBE/[^\s(]+|github\.com/cosmos/[^\s(]+|cosmossdk\.io/[^\s(]+|github\.com/ethereum/[^\s(]+|math/big\.[^\s(]+)`)

// panicSite names the innermost non-runtime frame of a captured panic: the call site that identifies a
// crash defect independently of line numbers.
func panicSite(pi *PanicInfo) string {
	lines := strings.Split(pi.Stack, "\n")
	seenPanic := false
	for _, l := range lines {
		if strings.HasPrefix(l, "panic(") {
			seenPanic = true
			continue
		}
		if !seenPanic {
			continue
		}
		if m := frameRe.FindString(l); m != "" {
			if strings.Contains(m, "evsim.") {
				continue
			}
			// strip the module version so the site survives dependency bumps
			return regexp.MustCompile(`@v[^/]+`).ReplaceAllString(m, "")
		}
	}
	return "unknown"
}

func feeParamsOf(d *Dump) feemarkettypes.Params {
	var p feemarkettypes.Params
	bz := d.Get("feemarket", feemarkettypes.ParamsKey)
	if bz == nil {
		panic("harness: no feemarket params in dump")
	}
	EncodingConfig().Codec.MustUnmarshal(bz, &p)
	return p
}

func checkInit(r *RunCtx, c *Chain) {
	if c.InitPanic != nil {
		r.Violate("C20", "abci_panic", map[string]string{"phase": "InitChain", "site": panicSite(c.InitPanic)}, "InitChain panicked on a valid genesis: %s", c.InitPanic.Value)
		// the harness's genesis has the form of an exported state (accounts, contracts with code and storage, module
		// parameters): a node that cannot be initialised from it cannot import an export either
		r.Violate("C18", "import_failed", map[string]string{"why": errClass(c.InitPanic.Value), "stage": "genesis"}, "InitChain from a genesis with contracts, storage and module parameters panicked: %s", clip(c.InitPanic.Value))
	} else if c.InitErr != nil {
		r.Violate("C20", "abci_error", map[string]string{"phase": "InitChain"}, "InitChain failed on a valid genesis: %v", c.InitErr)
		r.Violate("C18", "import_failed", map[string]string{"why": errClass(c.InitErr.Error()), "stage": "genesis"}, "InitChain from a genesis with contracts, storage and module parameters failed: %v", c.InitErr)
	}
}

// checkABCI: no panic and no error may leave an ABCI entry point (C20); block processing never fails (C09).
func checkABCI(r *RunCtx, rec *BlockRecord) {
	for _, p := range []struct {
		phase string
		pi    *PanicInfo
		err   error
	}{{"PrepareProposal", rec.PrepPanic, rec.PrepErr}, {"ProcessProposal", rec.ProcPanic, rec.ProcErr}, {"FinalizeBlock", rec.Panic, rec.Err}} {
		if p.pi != nil {
			site := panicSite(p.pi)
			r.Violate("C20", "abci_panic", map[string]string{"phase": p.phase, "site": site}, "%s panicked at height %d: %s", p.phase, rec.Height, p.pi.Value)
			if strings.Contains(p.pi.Stack, "x/feemarket/keeper.Keeper.EndBlock") || strings.Contains(p.pi.Stack, "x/feemarket/keeper.Keeper.CalculateBaseFee") {
				r.Violate("C09", "basefee_computation_failed", map[string]string{"site": site}, "end-of-block base fee computation panicked: %s", p.pi.Value)
			}
		} else if p.err != nil {
			r.Violate("C20", "abci_error", map[string]string{"phase": p.phase}, "%s returned error at height %d: %v", p.phase, rec.Height, p.err)
		}
	}
}

// RunAlwaysOn evaluates the cheap oracles that every arm's history feeds.
func RunAlwaysOn(w *World, rec *BlockRecord, txs []*TxInfo) {
	oracleC13(w.R, rec, txs)
	var classes []string
	for _, t := range txs {
		w.R.At(rec.Height, t.Pos)
		classes = append(classes, classify(w.R, t))
		oracleC04(w.R, rec, t)
		oracleC05(w.R, rec, t)
		oracleC06Tx(w, rec, t)
		oracleC15(w, rec, t)
		oracleC02(w, rec, t)
	}
	w.R.At(rec.Height, -1)
	oracleC06Block(w, rec)
	oracleC09(w, rec, txs)
	w.R.At(rec.Height, -1)
	if len(classes) > 0 {
		// distinct non-trivial case: the ordered outcome-class vector of a block that carries transactions
		w.R.State(fmt.Sprintf("%s|byz=%v", strings.Join(classes, ","), rec.Byzantine))
	}
}

// classify counts outcome classes (evidence: which classes the workload actually reached).
func classify(r *RunCtx, t *TxInfo) string {
	c := classOf(t)
	r.Count("o:" + c)
	if c == "eth_success" && t.EthTx != nil && t.EthTx.Gas() > t.Rc.GasUsed {
		r.Count("o:eth_success_unused_gas")
	}
	return c
}

func classOf(t *TxInfo) string {
	switch {
	case t.Res == nil:
		return "no_result"
	case !t.Decoded:
		return "undecodable"
	case !t.IsEthShape:
		if t.Res.Code == 0 {
			return "cosmos_ok"
		} else {
			return "cosmos_fail"
		}
	case t.Obs == nil:
		return "eth_dropped_before_ante"
	case !t.HasEthEvent:
		return "eth_ante_reject"
	case !t.HasReceipt:
		if strings.Contains(t.Res.Log, "out of gas") && strings.Contains(t.Res.Log, "block") {
			return "eth_block_gas_exhausted"
		} else {
			return "eth_consensus_error"
		}
	case t.Rc.HasErr:
		switch {
		case strings.Contains(t.Rc.Err, "reverted"):
			return "eth_revert"
		case strings.Contains(t.Rc.Err, "out of gas"):
			return "eth_vm_oog"
		default:
			return "eth_vm_error"
		}
	default:
		return "eth_success"
	}
}

func gasUsedForFee(t *TxInfo) uint64 {
	if t.HasReceipt {
		return t.Rc.GasUsed
	}
	return t.EthTx.Gas()
}

// oracleC04: an Ethereum transaction never creates coins.
func oracleC04(r *RunCtx, rec *BlockRecord, t *TxInfo) {
	if !t.IsEthShape || t.Obs == nil || t.Obs.After == nil || t.EthTx == nil {
		return
	}
	vb, va := ViewOf(t.Obs.Before), ViewOf(t.Obs.After)
	base := BaseFeeOf(t.Obs.Before)
	price := EffectivePrice(t.EthTx, base)
	unused := new(big.Int)
	if t.HasEthEvent {
		unused.Mul(new(big.Int).SetUint64(t.EthTx.Gas()-minU(gasUsedForFee(t), t.EthTx.Gas())), price)
	}
	denoms := map[string]bool{}
	for _, d := range vb.Denoms() {
		denoms[d] = true
	}
	for _, d := range va.Denoms() {
		denoms[d] = true
	}
	for _, d := range sortedKeys(denoms) {
		sb, sa := vb.Supply[d], va.Supply[d]
		if sb == nil {
			sb = new(big.Int)
		}
		if sa == nil {
			sa = new(big.Int)
		}
		ds := new(big.Int).Sub(sa, sb)
		if ds.Sign() > 0 {
			kind := "other"
			if d == BaseDenom && unused.Sign() > 0 && ds.Cmp(unused) == 0 {
				kind = "unused_gas_x_price"
			}
			r.Violate("C04", "supply_increase", map[string]string{"denom": denomClass(d), "delta": kind},
				"supply of %s grew by %s in one Ethereum tx (gas limit %d, gas used %d, price %s)", d, ds, t.EthTx.Gas(), gasUsedForFee(t), price)
		}
		db := new(big.Int).Sub(va.SumBalances(d), vb.SumBalances(d))
		if db.Cmp(ds) != 0 {
			r.Violate("C04", "ledger_mismatch", map[string]string{"denom": denomClass(d)}, "sum of balance changes %s != supply change %s for %s", db, ds, d)
		}
		if x := va.Balance(EvmModuleAddr, d); x.Sign() != 0 {
			r.Violate("C04", "evm_module_balance", map[string]string{"denom": denomClass(d)}, "evm module account holds %s%s after the tx", x, d)
		}
		if ds.Sign() < 0 {
			r.Probe("supply_decreased_in_tx", true)
			// "decreases only by amounts explicitly destroyed": a transaction that runs no code at all (a call without
			// data to an address that has no code before or after, not a precompile) has nothing that could self-destruct,
			// delete a funded account or call burn - whatever it moves must arrive
			if to := t.EthTx.To(); to != nil && len(t.EthTx.Data()) == 0 && len(vb.CodeHash[*to]) == 0 && len(va.CodeHash[*to]) == 0 && !isCustomPrecompileIn(t.Obs.Before, *to) {
				r.Count("o:c04_codeless_transfer_supply_checked")
				r.Violate("C04", "supply_decrease_unexplained", map[string]string{"denom": denomClass(d), "tx": "plain_transfer"},
					"supply of %s fell by %s in a transaction that executes no code (value %s to %s): nothing was explicitly destroyed", d, new(big.Int).Neg(ds), t.EthTx.Value(), to.Hex())
			}
		}
	}
	// the fee collector gains exactly what the sender paid in fees
	// (not comparable when the transaction itself names the fee collector, e.g. as the recipient of a precompile transfer)
	if t.HasEthEvent && !bytes.Contains(t.EthTx.Data(), FeeCollectorAddr.Bytes()) {
		got := new(big.Int).Sub(va.Balance(FeeCollectorAddr, BaseDenom), vb.Balance(FeeCollectorAddr, BaseDenom))
		want := new(big.Int).Mul(new(big.Int).SetUint64(gasUsedForFee(t)), price)
		if got.Cmp(want) != 0 {
			kind := "other"
			full := new(big.Int).Mul(new(big.Int).SetUint64(t.EthTx.Gas()), price)
			if got.Cmp(full) == 0 {
				kind = "gas_limit_x_price"
			}
			r.Violate("C04", "fee_collector_delta", map[string]string{"delta": kind},
				"fee collector gained %s, sender paid %s in fees (gas limit %d, used %d, price %s)", got, want, t.EthTx.Gas(), gasUsedForFee(t), price)
		}
	}
}

func denomClass(d string) string {
	if d == BaseDenom {
		return "evm"
	}
	return "other"
}

func minU(a, b uint64) uint64 {
	if a < b {
		return a
	}
	return b
}

func sortedKeys(m map[string]bool) []string {
	out := make([]string, 0, len(m))
	for k := range m {
		out = append(out, k)
	}
	sortStrings(out)
	return out
}

// oracleC05: the charging law per transaction.
func oracleC05(r *RunCtx, rec *BlockRecord, t *TxInfo) {
	if !t.IsEthShape || t.Obs == nil || t.Obs.After == nil {
		return
	}
	if !t.HasEthEvent {
		// rejected at admission: costs nothing and changes nothing
		if d := Diff(t.Obs.Before, t.Obs.After); len(d) > 0 {
			r.Violate("C05", "rejected_tx_changed_state", map[string]string{"store": d[0].Store}, "tx rejected at admission (code %d: %s) changed %d keys, first %s", t.Res.Code, t.Res.Log, len(d), d[0])
		}
		return
	}
	if t.EthTx == nil {
		r.Violate("C05", "admitted_undecodable", nil, "an Ethereum tx with undecodable payload passed admission")
		return
	}
	tx := t.EthTx
	vb, va := ViewOf(t.Obs.Before), ViewOf(t.Obs.After)
	base := BaseFeeOf(t.Obs.Before)
	price := EffectivePrice(tx, base)
	gu := gasUsedForFee(t)
	if t.HasReceipt {
		create := tx.To() == nil
		intr := IntrinsicGas(tx.Data(), tx.AccessList(), create)
		// "at least the intrinsic gas" is about the gas consumed; the receipt shows it net of the storage refund, which
		// is at most a fifth of the consumption: net gas used >= 4/5 of the intrinsic gas always, and >= the intrinsic
		// gas itself whenever nothing was refunded (decided next to the reference execution, c02.go)
		if gu*5 < intr*4 || gu > tx.Gas() {
			r.Violate("C05", "gas_used_bounds", nil, "gas used %d outside [4/5 of intrinsic %d, limit %d]", gu, intr, tx.Gas())
		}
		if t.Res.Code == 0 && uint64(t.Res.GasUsed) != gu {
			r.Violate("C05", "result_vs_receipt_gas", nil, "ExecTxResult.GasUsed %d != receipt gasUsed %d", t.Res.GasUsed, gu)
		}
		if t.Rc.EffPrice != nil && t.Rc.EffPrice.Cmp(price) != 0 {
			r.Cross["c05:receipt_effective_price_mismatch"]++
		}
		if uint64(t.Res.GasWanted) != tx.Gas() {
			r.Cross["c05:gas_wanted_ne_limit"]++
		}
	}
	if !t.HasReceipt && t.Res != nil && t.Res.Code != 0 {
		// failed outside EVM execution: the sender pays for the full gas limit (decided below). What ExecTxResult.GasUsed
		// shows for such a tx is not constrained by the statement (on this tree: the limit, the Cosmos meter's reading
		// when the block gas meter stopped it, or 0 after a recovered panic) and is recorded only
		r.Probe("c05_failed_outside_evm_gas_limit_above_block_gas", rec.MaxGas > 0 && tx.Gas() > uint64(rec.MaxGas))
		if g := uint64(t.Res.GasUsed); g != tx.Gas() {
			r.Cross["c05:failed_outside_evm_result_gas_ne_limit"]++
		}
	}
	// sender delta = -(gasUsed x price) - value out (+ inflows, none in arms that run this exact law)
	if r.Script != nil && r.Script.Extra["exact_sender"] == "1" {
		from := t.From
		valueOut := new(big.Int)
		if t.HasReceipt && !t.Rc.HasErr && t.Res.Code == 0 && (tx.To() == nil || *tx.To() != from) {
			valueOut.Set(tx.Value())
		}
		want := new(big.Int).Mul(new(big.Int).SetUint64(gu), price)
		want.Add(want, valueOut)
		want.Neg(want)
		got := new(big.Int).Sub(va.Balance(from, BaseDenom), vb.Balance(from, BaseDenom))
		if got.Cmp(want) != 0 {
			r.Violate("C05", "sender_charge", map[string]string{"outcome": outcomeOf(t)},
				"sender balance changed by %s, law says %s (gas used %d, limit %d, price %s, value %s)", got, want, gu, tx.Gas(), price, tx.Value())
		}
	}
}

func outcomeOf(t *TxInfo) string {
	switch {
	case !t.HasReceipt:
		return "not_committed"
	case t.Rc.HasErr:
		return "vm_error"
	}
	return "success"
}

// oracleC13: numbering, cumulative gas, status, bloom, contract address — recomputed from the block results alone.
func oracleC13(r *RunCtx, rec *BlockRecord, txs []*TxInfo) {
	k := int64(0)
	logs := int64(0)
	cum := uint64(0)
	var union ethtypes.Bloom
	for _, t := range txs {
		if !t.HasEthEvent {
			if t.HasReceipt {
				r.Violate("C13", "receipt_without_admission", nil, "tx %d has a receipt event but no ethereum_tx event", t.Pos)
			}
			continue
		}
		r.At(rec.Height, t.Pos)
		if t.EvTxIndex != k {
			r.Violate("C13", "eth_tx_index", nil, "ethereum_tx.txIndex=%d, expected %d", t.EvTxIndex, k)
		}
		if t.EthTx == nil {
			k++
			continue
		}
		if t.EvHash != t.EthTx.Hash().Hex() {
			r.Violate("C13", "eth_tx_hash", nil, "ethereum_tx hash %s != %s", t.EvHash, t.EthTx.Hash().Hex())
		}
		gu := gasUsedForFee(t)
		cum += gu
		if t.HasReceipt {
			rc := t.Rc
			if rc.Receipt == nil {
				r.Violate("C13", "receipt_undecodable", nil, "tx_receipt.marshalled does not decode: %s", rc.ParseErr)
				k++
				continue
			}
			if rc.TxIdx != k {
				r.Violate("C13", "receipt_tx_index", nil, "tx_receipt.txIdx=%d, expected %d", rc.TxIdx, k)
			}
			n := int64(len(rc.Receipt.Logs))
			if n > 0 {
				r.Probe("block_with_logs_after_logs", logs > 0)
				if !rc.HasLogIdx {
					r.Violate("C13", "log_index", map[string]string{"got": "missing"}, "receipt with %d logs has no logIdx", n)
				} else if rc.LogIdx != logs {
					got := "other"
					if rc.LogIdx == 0 {
						got = "zero"
					}
					r.Violate("C13", "log_index", map[string]string{"got": got}, "first log index %d, expected %d (logs of earlier txs in the block)", rc.LogIdx, logs)
				}
			}
			logs += n
			if rc.Receipt.CumulativeGasUsed != cum {
				r.Violate("C13", "cumulative_gas", nil, "cumulativeGasUsed=%d, running sum %d", rc.Receipt.CumulativeGasUsed, cum)
				r.Violate("C05", "cumulative_gas", nil, "cumulativeGasUsed=%d, running sum of gas used over the block's Ethereum txs %d", rc.Receipt.CumulativeGasUsed, cum) // the last clause of C05's statement
			}
			if (rc.Receipt.Status == ethtypes.ReceiptStatusSuccessful) == rc.HasErr {
				r.Violate("C13", "status_vs_error", nil, "status=%d but error attribute present=%v", rc.Receipt.Status, rc.HasErr)
			}
			bl := ethtypes.BytesToBloom(ethtypes.LogsBloom(rc.Receipt.Logs))
			if bl != rc.Receipt.Bloom {
				r.Violate("C13", "receipt_bloom", nil, "receipt bloom does not cover exactly its logs")
			}
			for i := range union {
				union[i] |= rc.Receipt.Bloom[i]
			}
			created := t.EthTx.To() == nil && !rc.HasErr
			if created {
				want := ethcrypto.CreateAddress(t.From, t.EthTx.Nonce())
				if !strings.EqualFold(rc.Contract, want.Hex()) {
					r.Violate("C13", "contract_address", nil, "contractAddr=%q, expected %s", rc.Contract, want.Hex())
				}
			} else if rc.Contract != "" && common.HexToAddress(rc.Contract) != (common.Address{}) {
				r.Violate("C13", "contract_address", nil, "contractAddr=%q reported although no contract was created", rc.Contract)
			}
			if rc.GasUsed != uint64(t.Res.GasUsed) && t.Res.Code == 0 {
				r.Cross["c13:gas_used_event_vs_result"]++
			}
		}
		k++
	}
	r.At(rec.Height, -1)
	if k >= 2 {
		r.Probe("multi_eth_tx_block", true)
	}
	// block bloom
	if rec.Res != nil {
		var got *ethtypes.Bloom
		for _, e := range rec.Res.Events {
			if e.Type == "block_bloom" {
				v, _ := attr(e, "bloom")
				var b ethtypes.Bloom
				if v != "" {
					bz, err := hex.DecodeString(v)
					if err != nil {
						r.Violate("C13", "block_bloom", nil, "block bloom is not hex: %q", v)
						return
					}
					b = ethtypes.BytesToBloom(bz)
				}
				got = &b
			}
		}
		if got == nil {
			r.Violate("C13", "block_bloom", map[string]string{"got": "missing"}, "no block_bloom event in FinalizeBlock events")
		} else if !bytes.Equal(got[:], union[:]) {
			r.Violate("C13", "block_bloom", map[string]string{"got": "mismatch"}, "block bloom is not the union of the receipt blooms")
		}
	}
}

func fmtAddr(a common.Address) string { return fmt.Sprintf("%x", a[:]) }

func sortStrings(s []string) { sort.Strings(s) }

// isCustomPrecompileIn: the address is a registered custom precompile in that state.
func isCustomPrecompileIn(d *Dump, a common.Address) bool {
	metas, _, _ := registryOf(d)
	_, ok := metas[a]
	return ok
}
