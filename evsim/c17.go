package evsim

import (
	"bytes"
	"encoding/hex"
	"encoding/json"
	"fmt"
	"github.com/cosmos/cosmos-sdk/types/query"
	"math/rand/v2"
	"sort"
	"strconv"
	"strings"

	sdkmath "cosmossdk.io/math"
	cpctypes "github.com/EscanBE/evermint/v12/x/cpc/types"
	feemarkettypes "github.com/EscanBE/evermint/v12/x/feemarket/types"
	codectypes "github.com/cosmos/cosmos-sdk/codec/types"
	sdk "github.com/cosmos/cosmos-sdk/types"
	authtypes "github.com/cosmos/cosmos-sdk/x/auth/types"
	govtypes "github.com/cosmos/cosmos-sdk/x/gov/types"
	govv1 "github.com/cosmos/cosmos-sdk/x/gov/types/v1"
	"github.com/cosmos/gogoproto/proto"
	"github.com/ethereum/go-ethereum/common"
	"github.com/ethereum/go-ethereum/core/vm"
	ethcrypto "github.com/ethereum/go-ethereum/crypto"
)

// ---- C17: custom-precompile registry integrity and exact EVM exposure ----------------------------------

type regEntry struct {
	Addr     common.Address
	Type     uint32
	Name     string
	Typed    string
	Disabled bool
	Denom    string
}

type C17Model struct {
	Prev      map[common.Address]regEntry // registry snapshot after the previous block
	PrevVer   uint32
	Whitelist map[string]bool // bech32 -> whitelisted (as of the last committed params)
	Disabled  map[common.Address]bool
	Init      bool
}

func (w *World) c17() *C17Model {
	if w.C17 == nil {
		w.C17 = &C17Model{Prev: map[common.Address]regEntry{}, Whitelist: map[string]bool{}, Disabled: map[common.Address]bool{}}
	}
	return w.C17
}

// registryOf decodes the cpc store section of a dump: metadata by address, denom index, params.
func registryOf(d *Dump) (metas map[common.Address]regEntry, denomIdx map[string]common.Address, params cpctypes.Params) {
	metas, denomIdx = map[common.Address]regEntry{}, map[string]common.Address{}
	cdc := EncodingConfig().Codec
	for _, kv := range d.Stores["cpc"] {
		switch {
		case bytes.Equal(kv.K, cpctypes.KeyPrefixParams):
			cdc.MustUnmarshal(kv.V, &params)
		case bytes.HasPrefix(kv.K, cpctypes.KeyPrefixCustomPrecompiledContractMeta) && len(kv.K) == len(cpctypes.KeyPrefixCustomPrecompiledContractMeta)+20:
			var m cpctypes.CustomPrecompiledContractMeta
			cdc.MustUnmarshal(kv.V, &m)
			a := common.BytesToAddress(kv.K[len(cpctypes.KeyPrefixCustomPrecompiledContractMeta):])
			e := regEntry{Addr: a, Type: m.CustomPrecompiledType, Name: m.Name, Typed: m.TypedMeta, Disabled: m.Disabled}
			if m.CustomPrecompiledType == cpctypes.CpcTypeErc20 {
				var tm struct {
					MinDenom string `json:"min_denom"`
				}
				_ = json.Unmarshal([]byte(m.TypedMeta), &tm)
				e.Denom = tm.MinDenom
			}
			if !bytes.Equal(m.Address, a.Bytes()) {
				e.Name += " [stored under another address]"
			}
			metas[a] = e
		case bytes.HasPrefix(kv.K, cpctypes.KeyPrefixErc20CpcDenomToAddress):
			denomIdx[string(kv.K[len(cpctypes.KeyPrefixErc20CpcDenomToAddress):])] = common.BytesToAddress(kv.V)
		}
	}
	return
}

func sortedAddrs[T any](m map[common.Address]T) []common.Address {
	out := make([]common.Address, 0, len(m))
	for a := range m {
		out = append(out, a)
	}
	sort.Slice(out, func(i, j int) bool { return bytes.Compare(out[i][:], out[j][:]) < 0 })
	return out
}

// c17AfterBlock: deployment rules per transaction, registry invariants per block, exposure probe.
func c17AfterBlock(w *World, rec *BlockRecord, txs []*TxInfo) {
	m := w.c17()
	r := w.R
	if rec.Obs == nil || rec.Obs.AfterEnd == nil || rec.Obs.BeforeBgn == nil {
		return
	}
	if !m.Init {
		// the genesis registry: whatever InitChain deployed is "deployed at genesis"
		metas, _, params := registryOf(rec.Obs.BeforeBgn)
		m.Prev, m.PrevVer, m.Init = metas, params.ProtocolVersion, true
		for _, a := range params.WhitelistedDeployers {
			m.Whitelist[a] = true
		}
	}
	// --- deployments: accepted only from the whitelist, for a denomination with supply and no token yet, at a fresh address
	cur := m.Prev
	for _, t := range txs {
		if t.Obs == nil || t.Obs.After == nil {
			continue
		}
		r.At(rec.Height, t.Pos)
		before, idxB, paramsB := registryOf(t.Obs.Before)
		after, _, _ := registryOf(t.Obs.After)
		var added []common.Address
		for _, a := range sortedAddrs(after) {
			if _, had := before[a]; !had {
				added = append(added, a)
			}
		}
		for _, a := range sortedAddrs(before) {
			if _, has := after[a]; !has {
				r.Violate("C17", "contract_removed", nil, "precompile %s disappeared from the registry inside a transaction", a.Hex())
			}
		}
		if len(added) == 0 {
			continue
		}
		r.Probe("precompile_deployed_by_message", true)
		// who signed? (the deploy messages are single-signer Cosmos txs built by the harness)
		signer := ""
		if tx, err := EncodingConfig().TxConfig.TxDecoder()(t.Bytes); err == nil {
			for _, msg := range tx.GetMsgs() {
				switch x := msg.(type) {
				case *cpctypes.MsgDeployErc20ContractRequest:
					signer = x.Authority
				case *cpctypes.MsgDeployStakingContractRequest:
					signer = x.Authority
				}
			}
		}
		wl := map[string]bool{}
		for _, a := range paramsB.WhitelistedDeployers {
			wl[a] = true
		}
		vb := ViewOf(t.Obs.Before)
		for _, a := range added {
			e := after[a]
			if signer == "" {
				r.Violate("C17", "deployed_without_deploy_message", map[string]string{"type": fmt.Sprint(e.Type)}, "precompile %s (%s) appeared through a transaction that carries no deploy message", a.Hex(), e.Name)
				continue
			}
			if !wl[signer] {
				r.Violate("C17", "deployed_by_non_whitelisted", map[string]string{"type": fmt.Sprint(e.Type)}, "precompile %s deployed by %s which is not on the whitelist %v", a.Hex(), signer, paramsB.WhitelistedDeployers)
			}
			if e.Type == cpctypes.CpcTypeErc20 {
				if s := vb.Supply[e.Denom]; s == nil || s.Sign() <= 0 {
					r.Violate("C17", "erc20_for_denom_without_supply", nil, "ERC-20 precompile %s deployed for %q whose supply is %v", a.Hex(), e.Denom, s)
				}
				if old, dup := idxB[e.Denom]; dup {
					r.Violate("C17", "second_erc20_for_denom", nil, "ERC-20 precompile %s deployed for %q which already has %s", a.Hex(), e.Denom, old.Hex())
				}
			}
			// fresh address: never used by an account with code or another precompile
			if len(vb.CodeHash[a]) > 0 {
				r.Violate("C17", "deployed_over_contract", nil, "precompile %s deployed at the address of an existing contract", a.Hex())
			}
		}
	}
	r.At(rec.Height, -1)
	// --- registry invariants on the state after the block
	metas, denomIdx, params := registryOf(rec.Obs.AfterEnd)
	perDenom := map[string][]common.Address{}
	for _, a := range sortedAddrs(metas) {
		e := metas[a]
		if strings.Contains(e.Name, "[stored under another address]") {
			r.Violate("C17", "meta_key_vs_address", nil, "metadata stored under key %s carries another address", a.Hex())
		}
		if e.Type == cpctypes.CpcTypeErc20 {
			perDenom[e.Denom] = append(perDenom[e.Denom], a)
			if idx, ok := denomIdx[e.Denom]; !ok || idx != a {
				r.Violate("C17", "denom_index_vs_metadata", map[string]string{"dir": "meta_without_index"}, "ERC-20 precompile %s for %q: denom index says %v", a.Hex(), e.Denom, idx.Hex())
			}
		}
		if p, ok := cur[a]; ok && p.Type != e.Type {
			r.Violate("C17", "type_changed", nil, "precompile %s changed type %d -> %d", a.Hex(), p.Type, e.Type)
		}
	}
	for _, a := range sortedAddrs(cur) {
		if _, ok := metas[a]; !ok {
			r.Violate("C17", "contract_removed", map[string]string{"when": "block"}, "precompile %s disappeared from the registry", a.Hex())
		}
	}
	dn := make([]string, 0, len(denomIdx))
	for d := range denomIdx {
		dn = append(dn, d)
	}
	sort.Strings(dn)
	for _, d := range dn {
		a := denomIdx[d]
		if e, ok := metas[a]; !ok || e.Type != cpctypes.CpcTypeErc20 || e.Denom != d {
			r.Violate("C17", "denom_index_vs_metadata", map[string]string{"dir": "index_without_meta"}, "denom index %q -> %s has no matching ERC-20 metadata", d, a.Hex())
		}
	}
	for d, as := range perDenom {
		if len(as) > 1 {
			r.Violate("C17", "second_erc20_for_denom", map[string]string{"when": "block"}, "%d ERC-20 precompiles for %q", len(as), d)
		}
	}
	if params.ProtocolVersion < m.PrevVer {
		r.Violate("C17", "protocol_version_decreased", nil, "protocol version %d -> %d", m.PrevVer, params.ProtocolVersion)
	}
	r.Probe("protocol_version_raised", params.ProtocolVersion > m.PrevVer)
	// --- "governance-controlled": a passed proposal that carries a parameter update leaves exactly its parameters
	var lastUp *cpctypes.MsgUpdateParams
	var lastID uint64
	for _, ev := range rec.Res.Events {
		if ev.Type != "active_proposal" {
			continue
		}
		res, _ := attr(ev, "proposal_result")
		idS, _ := attr(ev, "proposal_id")
		id, err := strconv.ParseUint(idS, 10, 64)
		if res != "proposal_passed" || err != nil || w.C.Halted {
			continue
		}
		prop, err := w.C.Node.App.GovKeeper.Proposals.Get(w.ctx(), id)
		if err != nil {
			continue
		}
		msgs, err := prop.GetMsgs()
		if err != nil {
			continue
		}
		for _, msg := range msgs {
			if up, ok := msg.(*cpctypes.MsgUpdateParams); ok {
				lastUp, lastID = up, id // several proposals in one end blocker: the last one executed stands
			}
		}
	}
	if up, id := lastUp, lastID; up != nil {
		{
			r.Probe("cpc_params_proposal_passed", true)
			r.Probe("cpc_params_proposal_empties_whitelist", len(up.NewParams.WhitelistedDeployers) == 0 && len(m.Whitelist) > 0)
			want := append([]string(nil), up.NewParams.WhitelistedDeployers...)
			got := append([]string(nil), params.WhitelistedDeployers...)
			sort.Strings(want)
			sort.Strings(got)
			if strings.Join(want, ",") != strings.Join(got, ",") {
				r.Violate("C17", "whitelist_differs_from_passed_proposal", map[string]string{"proposal_whitelist_empty": fmt.Sprint(len(want) == 0)},
					"proposal %d passed with whitelist %v, the stored whitelist is %v", id, want, got)
			}
			if params.ProtocolVersion != up.NewParams.ProtocolVersion {
				r.Violate("C17", "protocol_version_differs_from_passed_proposal", nil, "proposal %d passed with protocol version %d, stored %d", id, up.NewParams.ProtocolVersion, params.ProtocolVersion)
			}
		}
	}
	{
		wl := map[string]bool{}
		for _, a := range params.WhitelistedDeployers {
			wl[a] = true
		}
		changed := len(wl) != len(m.Whitelist)
		for a := range wl {
			changed = changed || !m.Whitelist[a]
		}
		r.Probe("whitelist_changed_by_governance", changed)
		m.Whitelist = wl
	}
	m.Prev, m.PrevVer = metas, params.ProtocolVersion
	// --- the gRPC view of the registry equals the store
	if !w.C.Halted {
		res, ok := w.grpcQuery("/evermint.cpc.v1.Query/CustomPrecompiledContracts", &cpctypes.QueryCustomPrecompiledContractsRequest{Pagination: &query.PageRequest{Limit: 100000}}, 0)
		if ok && res.Code == 0 {
			var qr cpctypes.QueryCustomPrecompiledContractsResponse
			if err := proto.Unmarshal(res.Value, &qr); err == nil {
				seen := map[common.Address]bool{}
				for _, c := range qr.Contracts {
					a := common.HexToAddress(c.Address)
					seen[a] = true
					e, ok := metas[a]
					if !ok || e.Type != c.Meta.CustomPrecompiledType || e.Name != c.Meta.Name || e.Typed != c.Meta.TypedMeta || e.Disabled != c.Meta.Disabled {
						r.Violate("C17", "query_vs_store", nil, "query lists %s (%s) differently from the store", c.Address, c.Meta.Name)
					}
				}
				for _, a := range sortedAddrs(metas) {
					if !seen[a] {
						r.Violate("C17", "query_vs_store", map[string]string{"dir": "missing_in_query"}, "stored precompile %s is not listed by the query", a.Hex())
					}
				}
			}
		}
		c17Exposure(w, rec, metas)
	}
}

// TmplFwd: a contract that ignores all but the first byte of its call data: k = calldata[0] (0 without call data),
// target = storage[k], selector = bech32AccountAddrPrefix() for k == 1 and name() otherwise. Returns
// word0 = success flag of the inner CALL followed by its return data. It lets a transaction whose own call data is
// shorter than a method selector reach a precompile.
func TmplFwd() []byte {
	a := NewAsm()
	a.Push(0).Op(vm.CALLDATALOAD).Push(0xf8).Op(vm.SHR) // k
	a.Op(vm.DUP1, vm.SLOAD, vm.SWAP1)                   // target, k
	a.Push(1).Op(vm.EQ).PushLabel("b32").Op(vm.JUMPI)
	a.Push(Selector("name()")).PushLabel("go").Op(vm.JUMP)
	a.Label("b32")
	a.Push(Selector("bech32AccountAddrPrefix()"))
	a.Label("go")                                 // target, selector
	a.Push(0xe0).Op(vm.SHL).Push(0).Op(vm.MSTORE) // mem[0:4] = selector ; stack: target
	a.Push(0).Push(0).Push(4).Push(0).Push(0).Op(vm.DUP6, vm.GAS, vm.CALL)
	a.Push(0).Op(vm.MSTORE) // mem[0] = success
	a.Op(vm.RETURNDATASIZE).Push(0).Push(32).Op(vm.RETURNDATACOPY)
	a.Push(32).Op(vm.RETURNDATASIZE, vm.ADD).Push(0).Op(vm.RETURN)
	return a.Bytes()
}

// fwdTargets: what the forwarder's storage slots point to (fixed at genesis; the addresses of future ERC-20
// precompiles are a function of the module account's sequence).
func fwdTargets() []common.Address {
	out := []common.Address{cpctypes.CpcStakingFixedAddress, cpctypes.CpcBech32FixedAddress}
	for n := uint64(0); n < 10; n++ {
		out = append(out, ethcrypto.CreateAddress(cpctypes.CpcModuleAddress, n))
	}
	return out
}

func fwdStorage() map[string]string {
	st := map[string]string{}
	for k, a := range fwdTargets() {
		st[fmt.Sprintf("0x%064x", k)] = "0x" + hex.EncodeToString(common.LeftPadBytes(a.Bytes(), 32))
	}
	return st
}

// c17Exposure: exactly the registered enabled contracts answer from the EVM (query mode; deliver mode is
// probed by generated "pc" transactions and settled in c17DeliverProbe).
func c17Exposure(w *World, rec *BlockRecord, metas map[common.Address]regEntry) {
	r := w.R
	cands := map[common.Address]bool{cpctypes.CpcStakingFixedAddress: true, cpctypes.CpcBech32FixedAddress: true}
	for a := range metas {
		cands[a] = true
	}
	// addresses the module account will hand out next, and the ones before
	seq := uint64(0)
	if acc := w.C.Node.App.AccountKeeper.GetAccount(w.ctx(), authtypes.NewModuleAddress(cpctypes.ModuleName)); acc != nil {
		seq = acc.GetSequence()
	}
	for n := uint64(0); n <= seq+2; n++ {
		cands[ethcrypto.CreateAddress(cpctypes.CpcModuleAddress, n)] = true
	}
	cands[common.HexToAddress("0x00000000000000000000000000000000000c0ffe")] = true
	for _, a := range sortedAddrs(cands) {
		e, registered := metas[a]
		sel := CallData("name()")
		if registered && e.Type == cpctypes.CpcTypeBech32 || (!registered && a == cpctypes.CpcBech32FixedAddress) {
			sel = CallData("bech32AccountAddrPrefix()")
		}
		ret, ok := w.viewCall(a, sel)
		callable := ok && len(ret) >= 64
		want := registered && !e.Disabled
		r.Count("o:exposure_probes")
		r.Probe("exposure_probe_disabled_contract", registered && e.Disabled)
		r.Probe("exposure_probe_unregistered_neighbour", !registered)
		if callable != want {
			state := "unregistered"
			if registered {
				state = "registered_enabled"
				if e.Disabled {
					state = "registered_disabled"
				}
			}
			r.Violate("C17", "exposure", map[string]string{"mode": "query", "contract": state, "callable": fmt.Sprint(callable)},
				"address %s is %s but answering a call from the EVM = %v (returned %d bytes)", a.Hex(), state, callable, len(ret))
		}
		// a call without call data: a wired precompile refuses it (no selector), anything else is an empty account
		_, okEmpty := w.viewCall(a, nil)
		// (a disabled one stays wired and refuses every call: nothing to tell apart there)
		if refuses := !okEmpty; refuses != want && !(registered && e.Disabled) {
			r.Violate("C17", "exposure", map[string]string{"mode": "query_without_call_data", "contract": stateOf(registered, e.Disabled), "callable": fmt.Sprint(refuses)},
				"address %s is %s but a call without call data is refused = %v", a.Hex(), stateOf(registered, e.Disabled), refuses)
		}
	}
	// the same through a contract that is itself called with less than four bytes of call data
	if fwd, ok := w.Labels["fwd"]; ok {
		for k, a := range fwdTargets() {
			e, registered := metas[a]
			data := []byte{byte(k)}
			if k == 0 {
				data = nil
			}
			ret, ok := w.viewCall(fwd, data)
			if !ok || len(ret) < 32 {
				continue
			}
			callable := ret[31] == 1 && len(ret) >= 32+64
			want := registered && !e.Disabled
			r.Count("o:exposure_probes_short_outer_data")
			if callable != want {
				r.Violate("C17", "exposure", map[string]string{"mode": "query_short_outer_data", "contract": stateOf(registered, e.Disabled), "callable": fmt.Sprint(callable)},
					"address %s is %s but reached from a call whose own call data has %d bytes it answers = %v", a.Hex(), stateOf(registered, e.Disabled), len(data), callable)
			}
		}
	}
}

func stateOf(registered, disabled bool) string {
	switch {
	case !registered:
		return "unregistered"
	case disabled:
		return "registered_disabled"
	}
	return "registered_enabled"
}

// c17DeliverProbe: delivered view calls to precompile targets: answered iff registered and enabled.
func c17DeliverProbe(w *World, rec *BlockRecord, txs []*TxInfo) {
	r := w.R
	for _, t := range txs {
		if t.EthTx == nil || w.ByHash == nil || t.Obs == nil {
			continue
		}
		if fwd, ok := w.Labels["fwd"]; ok && t.EthTx.To() != nil && *t.EthTx.To() == fwd && len(t.EthTx.Data()) < 4 && t.HasReceipt && !t.Rc.HasErr {
			k := 0
			if len(t.EthTx.Data()) > 0 {
				k = int(t.EthTx.Data()[0])
			}
			if resp := DecodeDeliveredEth(t.Res); resp != nil && len(resp.Ret) >= 32 && k < len(fwdTargets()) {
				a := fwdTargets()[k]
				metas, _, _ := registryOf(t.Obs.Before)
				e, registered := metas[a]
				callable := resp.Ret[31] == 1 && len(resp.Ret) >= 32+64
				r.At(rec.Height, t.Pos)
				r.Count("o:exposure_probes_deliver_short_outer_data")
				if want := registered && !e.Disabled; callable != want {
					r.Violate("C17", "exposure", map[string]string{"mode": "deliver_short_outer_data", "contract": stateOf(registered, e.Disabled), "callable": fmt.Sprint(callable)},
						"delivered tx with %d bytes of call data reaching %s (%s) through a contract: answered = %v", len(t.EthTx.Data()), a.Hex(), stateOf(registered, e.Disabled), callable)
				}
			}
			continue
		}
		s := w.ByHash[t.EthTx.Hash()]
		if s == nil || s.PcCall == nil || !t.HasReceipt || len(s.PcCall.Plan.Hops) != 0 {
			continue
		}
		md := pcMethods[s.PcCall.Kind][s.PcCall.Method]
		if md.Write || (s.PcCall.Method != "name" && s.PcCall.Method != "bech32AccountAddrPrefix") {
			continue
		}
		metas, _, _ := registryOf(t.Obs.Before)
		e, registered := metas[s.PcCall.Target]
		resp := DecodeDeliveredEth(t.Res)
		callable := !t.Rc.HasErr && resp != nil && len(resp.Ret) >= 64
		want := registered && !e.Disabled
		r.At(rec.Height, t.Pos)
		r.Count("o:exposure_probes_deliver")
		if callable != want {
			state := "unregistered"
			if registered {
				state = "registered_enabled"
				if e.Disabled {
					state = "registered_disabled"
				}
			}
			r.Violate("C17", "exposure", map[string]string{"mode": "deliver", "contract": state, "callable": fmt.Sprint(callable)},
				"delivered call to %s (%s): answered = %v", s.PcCall.Target.Hex(), state, callable)
		}
	}
}

// opDisable: what a chain upgrade would do — mark a registered precompile disabled on the next block's context.
func opDisable(w *World, op *Op) {
	metas := w.C.Node.App.CPCKeeper.GetAllCustomPrecompiledContractsMeta(w.ctx())
	if len(metas) == 0 {
		return
	}
	sort.Slice(metas, func(a, b int) bool { return bytes.Compare(metas[a].Address, metas[b].Address) < 0 })
	meta := metas[op.Ref%len(metas)]
	meta.Disabled = op.Mut != "enable"
	k := w.C.Node.App.CPCKeeper
	w.R.Count("f:precompile_disabled_by_upgrade")
	w.C.Node.PreBegin = func(ctx sdk.Context) {
		if err := k.SetCustomPrecompiledContractMeta(ctx, meta, false); err != nil {
			panic("harness: cannot update precompile metadata: " + err.Error())
		}
	}
}

// ---- governance: parameter changes of the custom modules through real proposals ----------------------

func govAuthority() string { return authtypes.NewModuleAddress(govtypes.ModuleName).String() }

func init() {
	msgBuilders["gov_cpc_params"] = func(w *World, op *Op) []sdk.Msg {
		cur := w.C.Node.App.CPCKeeper.GetParams(w.ctx())
		np := cpctypes.Params{ProtocolVersion: cur.ProtocolVersion, WhitelistedDeployers: append([]string(nil), cur.WhitelistedDeployers...)}
		switch op.Note {
		case "add":
			a := w.wallet(op.Ref).Bech32()
			has := false
			for _, x := range np.WhitelistedDeployers {
				has = has || x == a
			}
			if !has {
				np.WhitelistedDeployers = append(np.WhitelistedDeployers, a)
			}
		case "clear":
			np.WhitelistedDeployers = nil
		case "version_down":
			if np.ProtocolVersion > 0 {
				np.ProtocolVersion--
			}
		case "version_up":
			np.ProtocolVersion++
		}
		inner := &cpctypes.MsgUpdateParams{Authority: govAuthority(), NewParams: np}
		any, err := codectypes.NewAnyWithValue(inner)
		if err != nil {
			panic(err)
		}
		wl := w.wallet(op.W)
		return []sdk.Msg{&govv1.MsgSubmitProposal{Messages: []*codectypes.Any{any}, InitialDeposit: sdk.NewCoins(sdk.NewInt64Coin(BaseDenom, 10)), Proposer: wl.Bech32(),
			Metadata: "", Title: "cpc params", Summary: "cpc params " + op.Note}}
	}
	msgBuilders["gov_feemarket_params"] = func(w *World, op *Op) []sdk.Msg {
		// Val = base fee, Tip = min gas price (decimal)
		np := feemarkettypes.Params{BaseFee: sdkmath.NewIntFromBigInt(relNum(op.Val, w.BaseFee(), "b")), MinGasPrice: sdkmath.LegacyMustNewDecFromStr(op.Tip)}
		inner := &feemarkettypes.MsgUpdateParams{Authority: govAuthority(), Params: np}
		any, err := codectypes.NewAnyWithValue(inner)
		if err != nil {
			panic(err)
		}
		return []sdk.Msg{&govv1.MsgSubmitProposal{Messages: []*codectypes.Any{any}, InitialDeposit: sdk.NewCoins(sdk.NewInt64Coin(BaseDenom, 10)), Proposer: w.wallet(op.W).Bech32(),
			Title: "feemarket params", Summary: "feemarket params"}}
	}
	msgBuilders["gov_vote"] = func(w *World, op *Op) []sdk.Msg {
		wl := w.wallet(op.W)
		return []sdk.Msg{&govv1.MsgVote{ProposalId: uint64(op.Ref), Voter: wl.Bech32(), Option: govv1.OptionYes}}
	}
	opHandlers["disable"] = opDisable
	Arms["C17"] = &Arm{Gen: genC17, Run: runPc(c17DeliverProbe, c17AfterBlock)}
}

// ---- generator ------------------------------------------------------------------------------------------

// an IBC voucher: a bank denomination with upper-case letters
const ibcDenom = "ibc/27394FB092D2ECCD56123C74F36E4C1F926001CEADA9CA97EA622B25F41E5EB2"

// genC17Many: more than a hundred registered precompiles (list queries paginate at 100 by default): every one of them
// must still be wired into the EVM.
func genC17Many(rng *rand.Rand, seed uint64) *Script {
	g := pcGenesis(rng)
	g.Erc20Native, g.StakingCpc = true, rng.IntN(2) == 0
	g.Wallets = 4
	g.CpcWhitelist = []int{0}
	g.MaxGas = -1
	n := 99 + rng.IntN(8)
	g.ExtraDenoms = nil
	for i := 0; i < n; i++ {
		g.ExtraDenoms = append(g.ExtraDenoms, fmt.Sprintf("many%03d", i))
	}
	s := &Script{Prop: "C17", Seed: seed, Gen: g, Extra: map[string]string{}}
	ops := []Op{{K: "block", Dt: 5}}
	for i := 0; i < n; i++ {
		ops = append(ops, Op{K: "msg", W: 0, Mut: "cpc_erc20", Denom: g.ExtraDenoms[i], Typ: 6})
		if i%30 == 29 {
			ops = append(ops, Op{K: "block", Dt: 5})
		}
	}
	ops = append(ops, Op{K: "block", Dt: 5})
	for i := 0; i < 6; i++ {
		ops = append(ops, Op{K: "pc", W: rng.IntN(g.Wallets), To: pick(rng, "staking", fmt.Sprintf("erc20:%d", rng.IntN(n)), fmt.Sprintf("erc20:%d", rng.IntN(n))), Mut: "name"})
	}
	ops = append(ops, Op{K: "block", Dt: 5})
	s.Ops = ops
	return s
}

func genC17(rng *rand.Rand, seed uint64, tier string) *Script {
	if rng.IntN(60) == 0 {
		return genC17Many(rng, seed)
	}
	g := pcGenesis(rng)
	g.Erc20Native, g.StakingCpc = rng.IntN(2) == 0, rng.IntN(2) == 0
	g.ExtraDenoms = []string{"utwo", "uthree", ibcDenom}
	g.CpcWhitelist = nil
	if rng.IntN(3) > 0 {
		g.CpcWhitelist = []int{0}
	}
	g.VotingPeriodS = 300
	s := &Script{Prop: "C17", Seed: seed, Gen: g, Extra: map[string]string{}}
	ops := []Op{{K: "block", Dt: 5}}
	proposals := 0
	nb := 5 + rng.IntN(9)
	for b := 0; b < nb; b++ {
		for i, n := 0, rng.IntN(5); i < n; i++ {
			switch k := rng.IntN(100); {
			case k < 30: // deploy attempts: whitelisted or not, good and bad parameters
				ops = append(ops, Op{K: "msg", W: pick(rng, 0, 0, 1, 2), Mut: "cpc_erc20", Denom: pick(rng, "utwo", "uthree", BaseDenom, "unone", "utwo", ibcDenom, ibcDenom, strings.ToLower(ibcDenom)),
					Typ: pick(rng, 0, 6, 18, 1), Note: pick(rng, "", "", "Tokx", "ab"), Tip: pick(rng, "", "SYM", "utwo")})
			case k < 36:
				ops = append(ops, Op{K: "msg", W: pick(rng, 0, 1), Mut: "cpc_staking"})
			case k < 46 && proposals < 3: // governance: whitelist / version
				proposals++
				ops = append(ops, Op{K: "msg", W: 1, Mut: "gov_cpc_params", Ref: pick(rng, 1, 2), Note: pick(rng, "add", "add", "clear", "version_up", "version_down"), Gas: "900000"})
				ops = append(ops, Op{K: "block", Dt: 5})
				for v := 0; v < g.Validators; v++ {
					ops = append(ops, Op{K: "msg", W: 1000 + v, Mut: "gov_vote", Ref: proposals})
				}
				ops = append(ops, Op{K: "block", Dt: 5}, Op{K: "jump", Dt: 400}, Op{K: "block", Dt: 5})
			case k < 52:
				ops = append(ops, Op{K: "disable", Ref: rng.IntN(4), Mut: pick(rng, "disable", "disable", "enable")})
			case k < 80: // delivered exposure probes
				tgt := pick(rng, "erc20:0", "erc20:1", "staking", "bech32")
				m := "name"
				if tgt == "bech32" {
					m = "bech32AccountAddrPrefix"
				}
				ops = append(ops, Op{K: "pc", W: rng.IntN(g.Wallets), To: tgt, Mut: m})
			case k < 86: // a tx with less than four bytes of call data that reaches a precompile through a contract
				ops = append(ops, Op{K: "eth", W: rng.IntN(g.Wallets), To: "c:fwd", Data: pick(rng, "", "00", "01", "02", "03", "0101"), Gas: "i+300000", Typ: pick(rng, 0, 2), Price: "b+1", Tip: "1"})
			case k < 92:
				ops = append(ops, genErc20AnyOp(rng, &g, 2, true))
			default:
				ops = append(ops, genMixedTx(rng, &g))
			}
		}
		ops = append(ops, Op{K: "block", Dt: pick(rng, 1, 5, 5), Prop: rng.IntN(3), Byz: rng.IntN(8) == 0})
	}
	ops = append(ops, Op{K: "block", Dt: 5})
	s.Ops = ops
	return s
}
