package evsim

import (
	"encoding/hex"
	"fmt"
	"github.com/ethereum/go-ethereum/common"
	"math/rand/v2"

	ethcrypto "github.com/ethereum/go-ethereum/crypto"
)

// protectedGenesis: the mixed genesis plus vesting accounts of every kind, with end times placed before,
// inside and after the run's block-time window, some empty, some at CREATE addresses of wallet 0.
func protectedGenesis(rng *rand.Rand) (GenesisSpec, []int64) {
	g, _ := mixedGenesis(rng)
	// crowded blocks too: the block gas runs out inside the history (replicas must agree on which tx it hits), and
	// the base fee rises as well as falls
	g.MaxGas = pick(rng, int64(40_000_000), 40_000_000, -1, 3_000_000, 1_200_000)
	g.BaseFee = pick(rng, "1000000000", "7", "0")
	g.MinGasPrice = pick(rng, "0", "0", "0.5")
	var ends []int64
	kinds := []string{"continuous", "delayed", "periodic", "permanent"}
	n := 3 + rng.IntN(4)
	w0 := NewWallet("w", 0)
	for i := 0; i < n; i++ {
		end := pick(rng, int64(-500), 12, 40, 200, 5000, 86400*400)
		v := GenVesting{Kind: kinds[rng.IntN(len(kinds))], Wallet: i, StartOff: -1000, EndOff: end,
			Amount: pick(rng, "1000000000000000000", "50000000000000000000")}
		if end > 5000 && rng.IntN(3) == 0 {
			v.StartOff = pick(rng, int64(100), 3000) // a schedule that has not started yet: everything is still locked
		}
		switch rng.IntN(3) {
		case 0:
			v.Delegated = true // balance zero: an empty vesting account
		case 1:
			v.Extra = pick(rng, "1000000000000000000", "30000000000000000")
		}
		if !v.Delegated && rng.IntN(3) == 0 {
			v.Denom2 = "utwo"
		}
		if rng.IntN(3) == 0 {
			v.Addr = ethcrypto.CreateAddress(w0.Addr, uint64(rng.IntN(3))).Hex()
			for _, o := range g.Vesting {
				if o.Addr == v.Addr {
					v.Addr = ""
				}
			}
		}
		if v.Kind != "permanent" {
			ends = append(ends, end)
		}
		g.Vesting = append(g.Vesting, v)
	}
	return g, ends
}

func genProtectedTx(rng *rand.Rand, g *GenesisSpec) Op {
	w := rng.IntN(g.Wallets)
	nv := len(g.Vesting)
	vest := fmt.Sprintf("vest%d", rng.IntN(nv))
	mod := "mod:" + pick(rng, "fee_collector", "distribution", "evm", "bonded_tokens_pool", "gov", "mint", "cpc", "vauth")
	op := Op{K: "eth", W: w, Typ: pick(rng, 0, 2), Price: pick(rng, "b", "b+1", "b*2"), Tip: "1", Gas: "i+150000"}
	switch k := rng.IntN(100); {
	case k < 18: // touch / pay a vesting account
		op.To, op.Val = vest, pick(rng, "0", "0", "1", "1000")
	case k < 26: // touch / pay a module account
		op.To, op.Val = mod, pick(rng, "0", "0", "1")
	case k < 36: // creation by wallet 0: may collide with a vesting account placed at its CREATE address
		op.W = 0
		op.Init = pick(rng, "store", "sd", "logs")
		op.Gas, op.Val = "i+400000", pick(rng, "0", "5")
	case k < 44: // self-destruct toward a protected account
		op.To, op.Data = "c:"+pick(rng, "sd", "sd2", "sd3"), "{"+pick(rng, vest, mod)+"}"
	case k < 52: // several contracts with multi-denom balances die in one tx
		op.To, op.Gas = "c:multi", "i+400000"
		op.Data = "{c:sd2}{c:sd3}" + pick(rng, "", "{c:sd}", "{"+vest+"}")
	case k < 60: // proxy pays a protected account
		op.To, op.Gas = "c:proxy", "i+200000"
		op.Data = "{" + pick(rng, vest, mod) + "}" + hexWord(pick(rng, 0, 1, 50))
	case k < 74: // a vesting account spends: value above what is unlocked
		op.W = 2000 + rng.IntN(nv)
		op.To = fmt.Sprintf("w%d", w)
		op.Val = pick(rng, "1", "1000000000000000000", "49000000000000000000", "51000000000000000000")
		op.Gas = pick(rng, "i", "i+100000")
	case k < 80: // factory creating with value
		op.To, op.Gas, op.Data, op.Val = "c:factory", "i+400000", hexWord(0), "10"
	case k < 86: // fund the dying contracts with a second denomination
		return Op{K: "bank", W: w, To: "c:" + pick(rng, "sd", "sd2", "sd3"), Val: "55", Denom: "utwo", Price: "b+1", Gas: "200000", Typ: pick(rng, 0, 2), Tip: "1"}
	case k < 90: // fund a vesting account natively
		// (Cosmos txs with and without the dynamic-fee extension option, tight and ample gas)
		return Op{K: "bank", W: w, To: vest, Val: "1000", Denom: pick(rng, BaseDenom, "utwo"), Price: pick(rng, "b+1", "b*2"), Gas: pick(rng, "200000", "120000", "95000"), Typ: pick(rng, 0, 2), Tip: pick(rng, "0", "1")}
	default:
		return genMixedTx(rng, g)
	}
	return op
}

func genProtectedOps(rng *rand.Rand, g *GenesisSpec, nBlocks int) []Op {
	ops := []Op{{K: "block", Dt: 5}}
	pcTraffic := g.StakingCpc && g.Erc20Native && rng.IntN(2) == 0
	if pcTraffic {
		// precompile traffic: every wallet delegates to two validators (equal stakes: ties in every ordering rule)
		for i := 0; i < g.Wallets; i++ {
			for v := 0; v < g.Validators && v < 3; v++ {
				ops = append(ops, Op{K: "pc", W: i, To: "staking", Mut: "delegate", A: []string{fmt.Sprintf("val%d", v), "100000"}})
			}
		}
		// the orchestrator of self-witnessing transactions and its routers hold coins (see c03.go)
		for _, c := range []string{"c:seq", "c:router0", "c:router1", "c:router2"} {
			ops = append(ops, Op{K: "bank", W: 1, To: c, Val: "900000000", Denom: BaseDenom, Price: "b+1", Gas: "200000"})
		}
		ops = append(ops, Op{K: "block", Dt: 5})
	}
	deployAt := -1
	if pcTraffic {
		deployAt = rng.IntN(nBlocks) // an ERC-20 precompile is deployed by message in the middle of the history ...
	}
	for b := 0; b < nBlocks; b++ {
		if b == deployAt {
			// ... in a block of its own (no Ethereum tx after it), and used from the next block on
			g.CpcWhitelist = []int{0}
			ops = append(ops, Op{K: "msg", W: 0, Mut: "cpc_erc20", Denom: "utwo"}, Op{K: "block", Dt: 5})
		}
		n := rng.IntN(7)
		for i := 0; i < n; i++ {
			if deployAt >= 0 && b >= deployAt && rng.IntN(4) == 0 {
				ops = append(ops, Op{K: "erc20", W: rng.IntN(g.Wallets), Mut: pick(rng, "transfer", "transfer", "name", "balanceOf"), Ref: rng.IntN(2), A: []string{fmt.Sprintf("w%d", rng.IntN(g.Wallets)), pick(rng, "1", "1000")}})
				continue
			}
			if pcTraffic && rng.IntN(7) == 0 {
				// fresh accounts paid by the bank module through the ERC-20 precompile while the EVM looks at and touches
				// them (EIP-158 deletion of touched empty accounts must not take them for empty)
				if rng.IntN(2) == 0 {
					ops = append(ops, genWitnessCalm(rng, g))
				} else {
					ops = append(ops, genWitness(rng, g))
				}
				continue
			}
			if pcTraffic && rng.IntN(3) == 0 {
				if rng.IntN(4) == 0 {
					// staking transfer to oneself: the precompile re-delegates to the weakest of several tied validators
					ops = append(ops, Op{K: "pc", W: rng.IntN(g.Wallets), To: "staking", Mut: "transfer", A: []string{"caller", pick(rng, "1000", "1000000000")}})
					continue
				}
				ops = append(ops, genPcCall(rng, g, pick(rng, "", "", "c", "d")))
				continue
			}
			ops = append(ops, genProtectedTx(rng, g))
		}
		ops = append(ops, Op{K: "block", Dt: pick(rng, 1, 5, 5, 30), Prop: rng.IntN(4), Byz: rng.IntN(5) == 0})
		if rng.IntN(8) == 0 {
			ops = append(ops, Op{K: "jump", Dt: pick(rng, 100, 6000, 86400*500)})
		}
	}
	return append(ops, Op{K: "block", Dt: 5})
}

// wallClocks: candidate primary wall-clock offsets (seconds after the bubble epoch 2000-01-01): far before the
// block-time window, inside it on both sides of vesting end times, far after.
func wallClocks(ends []int64) []int64 {
	epoch := int64(946684800)
	out := []int64{0, GenesisUnix - epoch + 3, 86400 * 365 * 90}
	for _, e := range ends {
		out = append(out, GenesisUnix+e-epoch-2, GenesisUnix+e-epoch+2)
	}
	for i := range out {
		if out[i] < 0 {
			out[i] = 0
		}
	}
	return out
}

func genC15(rng *rand.Rand, seed uint64, tier string) *Script {
	g, ends := protectedGenesis(rng)
	s := &Script{Prop: "C15", Seed: seed, Gen: g, Extra: map[string]string{}}
	wc := wallClocks(ends)
	s.WallOffsetS = wc[rng.IntN(len(wc))]
	s.Ops = genProtectedOps(rng, &s.Gen, 3+rng.IntN(7))
	// call trees in which frames self-destruct, revert and touch each other (revert-heavy generated programs): a
	// contract whose SELFDESTRUCT was reverted must survive, whatever else touched it
	var eoas []common.Address
	for i := 0; i < s.Gen.Wallets; i++ {
		eoas = append(eoas, NewWallet("w", i).Addr)
	}
	for i := 0; i < nRand; i++ {
		s.Gen.Contracts = append(s.Gen.Contracts, GenContract{Addr: RandAddr(i).Hex(), Code: hex.EncodeToString(genProgramStyled(rng, i, eoas, nil, 1)), Balance: pick(rng, "", "1000000", "5")})
	}
	for i, n := 0, 2+rng.IntN(8); i < n; i++ {
		op := Op{K: "eth", W: rng.IntN(s.Gen.Wallets), To: RandAddr(rng.IntN(nRand)).Hex(), Typ: pick(rng, 0, 2), Price: "b+1", Tip: "1", Gas: pick(rng, "i+400000", "i+2000000"), Val: pick(rng, "0", "0", "1"), Data: hexWord(rng.IntN(2))}
		at := 1 + rng.IntN(len(s.Ops)-1)
		s.Ops = append(s.Ops[:at], append([]Op{op}, s.Ops[at:]...)...)
	}
	return s
}

func genC01(rng *rand.Rand, seed uint64, tier string) *Script {
	g, ends := protectedGenesis(rng)
	s := &Script{Prop: "C01", Seed: seed, Gen: g, Extra: map[string]string{}}
	wc := wallClocks(ends)
	s.WallOffsetS = wc[rng.IntN(len(wc))]
	nb := 3 + rng.IntN(7)
	s.Ops = genProtectedOps(rng, &s.Gen, nb)
	nr := 2
	if tier == "thorough" {
		nr = 5
	}
	s.Replicas = genReplicas(rng, nb, nr, ends)
	return s
}

func runC01(rt *Runtime, r *RunCtx, s *Script) {
	var w *World
	rt.Bubble(s.WallOffsetS, func() {
		SetMapOrder("asc", s.Seed)
		defer SetMapOrder("", 0)
		w = runMixedIn(r, s)
	})
	if w == nil || rt.Infra != "" {
		return
	}
	for i := range s.Replicas {
		env := s.Replicas[i]
		env.primaryOffset = s.WallOffsetS
		probe := NewRunCtx(r.Prop, r.Seed)
		RunReplica(rt, probe, w.G, w.C.Records, &env, s.Seed+uint64(i))
		if rt.Infra != "" {
			return
		}
		mergeStats(r, probe)
		r.State("replica:" + envClass(&env))
		r.Logf("replica %d env=%s digest=%s viol=%d", i, envClass(&env), probe.Digest(), len(probe.Viol))
		if len(probe.Viol) == 0 {
			continue
		}
		// attribute the divergence to single dimensions of the environment vector (environment minimisation)
		dims := envDims(&env)
		attributed := false
		if len(dims) > 1 {
			for _, d := range dims {
				pe := project(&env, d)
				p2 := NewRunCtx(r.Prop, r.Seed)
				RunReplica(rt, p2, w.G, w.C.Records, &pe, s.Seed+uint64(i))
				if rt.Infra != "" {
					return
				}
				if len(p2.Viol) > 0 {
					attributed = true
					r.Viol = append(r.Viol, p2.Viol...)
					r.Logf("  attributed to %s: %d", d, len(p2.Viol))
				}
			}
		}
		if !attributed {
			r.Viol = append(r.Viol, probe.Viol...)
		}
	}
}

func mergeStats(dst, src *RunCtx) {
	for k, v := range src.Stats {
		dst.Stats[k] += v
	}
	for k, v := range src.Cross {
		dst.Cross[k] += v
	}
}

func init() {
	Arms["C15"] = &Arm{Gen: genC15, Run: runMixed}
	Arms["C01"] = &Arm{Gen: genC01, Run: runC01}
}
