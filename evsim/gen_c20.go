package evsim

import (
	"bytes"
	"encoding/hex"
	"fmt"
	"math/big"
	"math/rand/v2"
	"runtime/debug"
	"sort"
	"strings"

	rpcfilters "github.com/EscanBE/evermint/v12/rpc/namespaces/ethereum/eth/filters"
	evmtypes "github.com/EscanBE/evermint/v12/x/evm/types"
	abci "github.com/cometbft/cometbft/abci/types"
	sdkdb "github.com/cosmos/cosmos-db"
	codectypes "github.com/cosmos/cosmos-sdk/codec/types"
	sdk "github.com/cosmos/cosmos-sdk/types"
	txtypes "github.com/cosmos/cosmos-sdk/types/tx"
	"github.com/cosmos/gogoproto/proto"
	"github.com/ethereum/go-ethereum/common"
	ethtypes "github.com/ethereum/go-ethereum/core/types"
)

// ---- adversarial op kinds ---------------------------------------------------------------------------

func init() {
	opHandlers["mutate"] = opMutate
	opHandlers["badeth"] = opBadEth
	opHandlers["shape"] = opShape
	opHandlers["query"] = opQueryFuzz
	opHandlers["live"] = opLiveness
	opHandlers["pcfuzz"] = opPrecompileFuzz
	opHandlers["flogs"] = opFilterLogs
}

// opMutate: byte-level mutation of a freshly built valid tx (Ref selects the recipe, Hex the mutation program).
func opMutate(w *World, op *Op) {
	base := Op{K: "eth", W: op.W, To: op.To, Typ: op.Typ, Gas: "i+50000", Price: "b+1", Data: op.Data, Val: op.Val}
	var s *Sent
	if op.Denom != "" {
		base.K = "bank"
		base.Gas = "200000"
		base.Denom = op.Denom
		s = w.BuildBankOp(&base)
	} else {
		s = w.BuildEthOp(&base)
	}
	// the client's nonce belief must not advance for a tx that is not the one it built
	delete(w.next, op.W)
	bz := append([]byte(nil), s.Bytes...)
	prog, _ := hex.DecodeString(op.Hex)
	for i := 0; i+2 < len(prog) && len(bz) > 0; i += 3 {
		pos := (int(prog[i+1])<<8 | int(prog[i+2])) % len(bz)
		switch prog[i] % 5 {
		case 0:
			bz[pos] ^= 1 << (prog[i] >> 5)
		case 1:
			bz = bz[:pos]
		case 2:
			bz[pos] = prog[i+1]
		case 3:
			end := pos + 1 + int(prog[i+2]%16)
			if end > len(bz) {
				end = len(bz)
			}
			bz = append(bz[:pos:pos], append(append([]byte(nil), bz[pos:end]...), bz[pos:]...)...)
		case 4:
			bz = append(bz[:pos:pos], bz[pos+1:]...)
		}
	}
	w.R.Count("f:mutated_tx")
	w.submitBytes(bz, -1, op.Via)
}

// rawTx assembles tx bytes from arbitrary message Anys without any client-side validation.
func rawTx(msgs []*codectypes.Any, gas uint64, fee sdk.Coins, memo string, extOpt []*codectypes.Any) []byte {
	body := &txtypes.TxBody{Messages: msgs, Memo: memo, ExtensionOptions: extOpt}
	auth := &txtypes.AuthInfo{Fee: &txtypes.Fee{Amount: fee, GasLimit: gas}}
	bb, err := proto.Marshal(body)
	if err != nil {
		panic(err)
	}
	ab, err := proto.Marshal(auth)
	if err != nil {
		panic(err)
	}
	raw := &txtypes.TxRaw{BodyBytes: bb, AuthInfoBytes: ab}
	bz, err := proto.Marshal(raw)
	if err != nil {
		panic(err)
	}
	return bz
}

func ethExtOpt() []*codectypes.Any {
	a, err := codectypes.NewAnyWithValue(&evmtypes.ExtensionOptionsEthereumTx{})
	if err != nil {
		panic(err)
	}
	return []*codectypes.Any{a}
}

// opBadEth: a well-typed MsgEthereumTx with adversarial field values (Mut selects the recipe).
func opBadEth(w *World, op *Op) {
	wl := w.wallet(op.W)
	base := w.BaseFee()
	price := new(big.Int).Add(base, big.NewInt(1))
	to := w.wallet(op.W + 1).Addr
	e := &EthTx{Type: op.Typ % 3, Nonce: w.nextNonce(op.W, wl), To: &to, Value: big.NewInt(1), Gas: 100000, GasPrice: price, FeeCap: price, TipCap: big.NewInt(0)}
	max256 := new(big.Int).Sub(new(big.Int).Lsh(big.NewInt(1), 256), big.NewInt(1))
	msg := &evmtypes.MsgEthereumTx{From: wl.Bech32()}
	gas := uint64(100000)
	fee := sdk.Coins{}
	build := func() {
		tx := SignEth(wl, e)
		bz, _ := tx.MarshalBinary()
		msg.MarshalledTx = bz
		gas = tx.Gas()
		p := tx.GasPrice()
		if tx.Type() == 2 {
			p = tx.GasFeeCap()
		}
		f := new(big.Int).Mul(p, new(big.Int).SetUint64(tx.Gas()))
		if f.Sign() > 0 && f.BitLen() <= 256 {
			fee = sdk.Coins{sdk.NewCoin(BaseDenom, sdkmathFromBig(f))}
		}
	}
	switch op.Mut {
	case "garbage_payload":
		msg.MarshalledTx, _ = hex.DecodeString(op.Hex)
	case "empty_payload":
		msg.MarshalledTx = nil
	case "truncated_payload":
		build()
		if n := len(msg.MarshalledTx); n > 2 {
			msg.MarshalledTx = msg.MarshalledTx[:n/2]
		}
	case "bad_from":
		build()
		msg.From = pick(newRng(uint64(len(op.Hex))+1), "", "evm1", "cosmos1qqqqqqqqqqqqqqqqqqqqqqqqqqqqqqqqnrql8a", "evm1qqqqqqqqqqqqqqqqqqqqqqqqqqqqqqqqqqqqqqqqqqqqqqqqqqqqqqqqqqqqqqqqqqqs2z0j4", "0x00", strings.Repeat("x", 300))
	case "huge_gas":
		e.Gas = uint64(1) << 63
		build()
	case "gas_max_int64":
		e.Gas = uint64(1)<<63 - 1
		build()
	case "huge_value":
		e.Value = max256
		build()
	case "huge_price":
		e.GasPrice, e.FeeCap, e.TipCap = max256, max256, max256
		build()
	case "price_257_bits":
		x := new(big.Int).Lsh(big.NewInt(1), 256)
		e.GasPrice, e.FeeCap = x, x
		build()
	case "zero_gas_price":
		e.GasPrice, e.FeeCap, e.TipCap = big.NewInt(0), big.NewInt(0), big.NewInt(0)
		build()
	case "to_precompile_short_input":
		if a, ok := w.ResolveAddr(op.To); ok {
			e.To = &a
		}
		e.Data, _ = hex.DecodeString(op.Hex)
		e.Value = big.NewInt(0)
		e.Gas = 200000
		build()
		w.next[op.W] = e.Nonce + 1
	case "fee_mismatch":
		build()
		fee = sdk.Coins{sdk.NewCoin(BaseDenom, sdkmathFromBig(big.NewInt(1)))}
	case "gas_mismatch":
		build()
		gas++
	case "other_denom_fee":
		build()
		fee = sdk.Coins{sdk.NewCoin("utwo", sdkmathFromBig(big.NewInt(1000000)))}
	default:
		build()
	}
	a, err := codectypes.NewAnyWithValue(msg)
	if err != nil {
		panic(err)
	}
	w.R.Count("f:adversarial_eth_fields")
	w.submitBytes(rawTx([]*codectypes.Any{a}, gas, fee, "", ethExtOpt()), -1, op.Via)
}

// opShape: structurally odd transactions (zero messages, unknown type urls, many messages, no auth info ...).
func opShape(w *World, op *Op) {
	var bz []byte
	switch op.Mut {
	case "zero_msgs":
		bz = rawTx(nil, 100000, sdk.Coins{}, "", nil)
	case "zero_msgs_eth_ext":
		bz = rawTx(nil, 100000, sdk.Coins{}, "", ethExtOpt())
	case "unknown_type_url":
		bz = rawTx([]*codectypes.Any{{TypeUrl: "/evsim.Unknown", Value: []byte{1, 2, 3}}}, 100000, sdk.Coins{}, "", nil)
	case "known_url_garbage_value":
		v, _ := hex.DecodeString(op.Hex)
		bz = rawTx([]*codectypes.Any{{TypeUrl: pick(newRng(uint64(len(v))), "/ethermint.evm.v1.MsgEthereumTx", "/cosmos.bank.v1beta1.MsgSend", "/evermint.cpc.v1.MsgDeployErc20ContractRequest", "/evermint.vauth.v1.MsgSubmitProofExternalOwnedAccount", "/cosmos.authz.v1beta1.MsgExec"), Value: v}}, 100000, sdk.Coins{}, "", nil)
	case "many_eth_msgs":
		s := w.BuildEthOp(&Op{K: "eth", W: op.W, To: "w1", Gas: "i+1000", Price: "b+1"})
		delete(w.next, op.W)
		tx, _ := EncodingConfig().TxConfig.TxDecoder()(s.Bytes)
		a, _ := codectypes.NewAnyWithValue(tx.GetMsgs()[0])
		var msgs []*codectypes.Any
		for i := 0; i < 2+op.Ref%20; i++ {
			msgs = append(msgs, a)
		}
		bz = rawTx(msgs, 100000, sdk.Coins{}, "", ethExtOpt())
	case "no_auth_info":
		body, _ := proto.Marshal(&txtypes.TxBody{})
		bz, _ = proto.Marshal(&txtypes.TxRaw{BodyBytes: body})
	case "empty":
		bz = []byte{}
	case "huge_memo":
		bz = rawTx(nil, 100000, sdk.Coins{}, strings.Repeat("m", 5000), nil)
	default:
		bz = rawTx(nil, 0, sdk.Coins{}, "", nil)
	}
	w.R.Count("f:adversarial_shape")
	w.submitBytes(bz, -1, op.Via)
}

// opQueryFuzz: ABCI Query with generated paths and payloads; it must return (never panic), C20.
func opQueryFuzz(w *World, op *Op) {
	data, _ := hex.DecodeString(op.Hex)
	h := int64(0)
	switch op.Ref % 4 {
	case 1:
		h = w.C.Height
	case 2:
		h = w.C.Height - 1
	case 3:
		h = w.C.Height + 5
	}
	_, err, pi := w.C.Node.Query(&abci.RequestQuery{Path: op.To, Data: data, Height: h, Prove: op.Typ == 1})
	w.R.Count("o:query_fuzz")
	if pi != nil {
		w.R.Violate("C20", "abci_panic", map[string]string{"phase": "Query", "site": panicSite(pi)}, "Query(%s) panicked: %s", op.To, pi.Value)
	}
	_ = err // an error return is a legal answer
}

// opPrecompileFuzz: call a registered precompile with a valid selector and generated argument bytes.
func opPrecompileFuzz(w *World, op *Op) {
	metas := w.C.Node.App.CPCKeeper.GetAllCustomPrecompiledContractsMeta(w.ctx())
	if len(metas) == 0 {
		return
	}
	sort.Slice(metas, func(i, j int) bool { return bytes.Compare(metas[i].Address, metas[j].Address) < 0 })
	m := metas[op.Ref%len(metas)]
	addr := common.BytesToAddress(m.Address)
	data, _ := hex.DecodeString(op.Hex)
	sels := w.precompileSelectors(addr)
	if len(sels) > 0 && len(data) >= 1 && op.Typ != 1 {
		sel := sels[int(data[0])%len(sels)]
		data = append(append([]byte(nil), sel...), data[1:]...)
	}
	eop := Op{K: "eth", W: op.W, To: addr.Hex(), Data: hex.EncodeToString(data), Gas: "i+300000", Price: "b+1", Val: op.Val}
	w.R.Count("f:precompile_fuzz")
	w.Submit(w.BuildEthOp(&eop), op.Via)
}

func (w *World) precompileSelectors(addr common.Address) [][]byte {
	var out [][]byte
	for _, c := range w.C.Node.App.CPCKeeper.GetAllCustomPrecompiledContracts(w.ctx()) {
		if common.BytesToAddress(c.GetMetadata().Address) != addr {
			continue
		}
		for _, e := range c.GetMethodExecutors() {
			out = append(out, e.Method4BytesSignatures())
		}
	}
	sort.Slice(out, func(i, j int) bool { return bytes.Compare(out[i], out[j]) < 0 })
	return out
}

// opFilterLogs: the log-filter criteria of eth_getLogs / eth_newFilter / eth_subscribe(logs) are user input; they are
// applied (by the JSON-RPC goroutines, which recover nothing) to every log of the chain, whatever its topic count.
func opFilterLogs(w *World, op *Op) {
	var logs []*ethtypes.Log
	for _, rec := range w.C.Records {
		if rec.Res == nil {
			continue
		}
		for _, t := range ParseBlock(rec) {
			if t.HasReceipt && t.Rc.Receipt != nil {
				for _, l := range t.Rc.Receipt.Logs {
					c := *l
					c.BlockNumber = uint64(rec.Height)
					logs = append(logs, &c)
				}
			}
		}
	}
	// anonymous and short logs always exist on a real chain
	logs = append(logs, &ethtypes.Log{Address: common.HexToAddress("0x01"), BlockNumber: 1}, &ethtypes.Log{Address: common.HexToAddress("0x02"), Topics: []common.Hash{{1}}, BlockNumber: 2})
	prog, _ := hex.DecodeString(op.Hex)
	var topics [][]common.Hash
	var addrs []common.Address
	for i := 0; i+1 < len(prog) && len(topics) < 5; i += 2 {
		switch prog[i] % 4 {
		case 0:
			topics = append(topics, nil) // wildcard
		case 1:
			topics = append(topics, []common.Hash{common.BigToHash(big.NewInt(int64(prog[i+1] % 4)))})
		case 2:
			topics = append(topics, []common.Hash{common.BigToHash(big.NewInt(0xabc)), common.BigToHash(big.NewInt(int64(prog[i+1])))})
		case 3:
			addrs = append(addrs, GenesisContractAddr(int(prog[i+1])%len(TemplateNames)))
		}
	}
	var from, to *big.Int
	if op.Ref%3 == 1 {
		from, to = big.NewInt(int64(op.Ref%5)), big.NewInt(int64(op.Ref%7))
	}
	w.R.Count("o:filter_logs_fuzz")
	func() {
		defer func() {
			if x := recover(); x != nil {
				pi := &PanicInfo{Phase: "FilterLogs", Value: fmt.Sprint(x), Stack: string(debug.Stack())}
				w.R.Violate("C20", "rpc_panic", map[string]string{"where": "FilterLogs", "site": panicSite(pi)}, "applying the log filter %d topic positions / %d addresses to %d logs panicked: %v", len(topics), len(addrs), len(logs), x)
			}
		}()
		_ = rpcfilters.FilterLogs(logs, from, to, addrs, topics)
	}()
}

// opLiveness: bounded liveness after faults — a fresh valid transfer must execute within 3 blocks.
func opLiveness(w *World, op *Op) {
	if w.C.Halted {
		return
	}
	if mg := w.C.MaxGas(); mg > 0 && mg < 200000 {
		return // a block gas limit below one transaction is valid but leaves no room for any tx: nothing to assert
	}
	delete(w.next, op.W)
	mk := func() *Sent {
		p := new(big.Int).Mul(w.BaseFee(), big.NewInt(2))
		p.Add(p, big.NewInt(1))
		fp := w.C.Node.App.FeeMarketKeeper.GetParams(w.ctx())
		if f := fp.MinGasPrice.TruncateInt().BigInt(); f.Cmp(p) > 0 {
			p.Add(f, big.NewInt(1))
		}
		return w.BuildEthOp(&Op{K: "eth", W: op.W, To: fmt.Sprintf("w%d", op.W+1), Val: "1", Gas: "i", Price: p.String(), Typ: 0})
	}
	s := mk()
	hash := s.EthTx.Hash()
	done := false
	for i := 0; i < 3 && !done && !w.C.Halted; i++ {
		w.Pending, w.PendIdx = [][]byte{s.Bytes}, []int{-1}
		rec := w.DoBlock(&Op{K: "block", Dt: 5})
		if rec == nil || rec.Res == nil {
			break
		}
		for _, t := range ParseBlock(rec) {
			if t.EthTx != nil && t.EthTx.Hash() == hash && t.HasReceipt && !t.Rc.HasErr && t.Res.Code == 0 {
				done = true
			}
		}
		if !done {
			// the base fee may have moved: rebuild against the new state
			delete(w.next, op.W)
			s = mk()
			hash = s.EthTx.Hash()
		}
	}
	w.R.Count("o:liveness_probe")
	if !done && !w.C.Halted {
		w.R.Violate("C20", "no_progress_after_faults", nil, "a fresh valid transfer was not executed within 3 blocks after the last adversarial operation")
	}
}

// ---- generator ----------------------------------------------------------------------------------------

func randHex(rng *rand.Rand, n int) string {
	b := make([]byte, n)
	for i := range b {
		b[i] = byte(rng.IntN(256))
	}
	return hex.EncodeToString(b)
}

var queryPaths = []string{
	"/ethermint.evm.v1.Query/EthCall", "/ethermint.evm.v1.Query/EstimateGas", "/ethermint.evm.v1.Query/Account", "/ethermint.evm.v1.Query/Balance",
	"/ethermint.evm.v1.Query/Storage", "/ethermint.evm.v1.Query/Code", "/ethermint.evm.v1.Query/Params", "/ethermint.evm.v1.Query/TraceTx",
	"/ethermint.evm.v1.Query/TraceBlock", "/ethermint.evm.v1.Query/ValidatorAccount", "/ethermint.evm.v1.Query/CosmosAccount",
	"/ethermint.feemarket.v1.Query/Params", "/ethermint.feemarket.v1.Query/BaseFee",
	"/evermint.cpc.v1.Query/Params", "/evermint.cpc.v1.Query/CustomPrecompiledContracts", "/evermint.cpc.v1.Query/Erc20CustomPrecompiledContractByDenom",
	"/evermint.vauth.v1.Query/ProofExternalOwnedAccount",
	"/cosmos.bank.v1beta1.Query/AllBalances", "/cosmos.auth.v1beta1.Query/Account", "/app/simulate", "/app/version", "/store/evm/key", "/store/bank/subspace", "/p2p/filter/addr/1.2.3.4", "/custom/x", "", "/",
}

func genAdversarialOp(rng *rand.Rand, g *GenesisSpec) Op {
	w := rng.IntN(g.Wallets)
	via := pick(rng, "", "", "check")
	switch k := rng.IntN(100); {
	case k < 12:
		return Op{K: "raw", Hex: randHex(rng, 1+rng.IntN(200)), Via: via}
	case k < 30:
		op := Op{K: "mutate", W: w, To: pick(rng, "w1", "c:store", "c:logs", "c:factory"), Data: hexWord(rng.IntN(4)), Hex: randHex(rng, 3*(1+rng.IntN(3))), Via: via, Typ: rng.IntN(3)}
		if rng.IntN(3) == 0 {
			op.Denom = BaseDenom
		}
		return op
	case k < 52:
		return Op{K: "badeth", W: w, Typ: rng.IntN(3), Via: via, Hex: randHex(rng, 1+rng.IntN(80)), To: "pc:0",
			Mut: pick(rng, "garbage_payload", "empty_payload", "truncated_payload", "bad_from", "huge_gas", "gas_max_int64", "huge_value", "huge_price", "price_257_bits", "zero_gas_price", "fee_mismatch", "gas_mismatch", "other_denom_fee")}
	case k < 60:
		return Op{K: "badeth", W: w, Via: via, Mut: "to_precompile_short_input", To: fmt.Sprintf("pc:%d", rng.IntN(3)), Hex: randHex(rng, rng.IntN(4))}
	case k < 70:
		return Op{K: "shape", W: w, Via: via, Ref: rng.IntN(100), Hex: randHex(rng, rng.IntN(60)),
			Mut: pick(rng, "zero_msgs", "zero_msgs_eth_ext", "unknown_type_url", "known_url_garbage_value", "many_eth_msgs", "no_auth_info", "empty", "huge_memo", "zero_gas")}
	case k < 82:
		return Op{K: "pcfuzz", W: w, Via: via, Ref: rng.IntN(8), Typ: rng.IntN(4), Hex: randHex(rng, 1+rng.IntN(4)*32+rng.IntN(3)), Val: pick(rng, "0", "0", "1")}
	case k < 86:
		return Op{K: "flogs", Hex: randHex(rng, 2*(1+rng.IntN(5))), Ref: rng.IntN(20)}
	case k < 92:
		return Op{K: "query", To: queryPaths[rng.IntN(len(queryPaths))], Hex: randHex(rng, rng.IntN(100)), Ref: rng.IntN(4), Typ: rng.IntN(2)}
	default:
		return genMixedTx(rng, g)
	}
}

func genC20(rng *rand.Rand, seed uint64, tier string) *Script {
	switch rng.IntN(8) {
	case 0:
		return genBusScript(rng, seed)
	case 1, 7:
		return genFilterScript(rng, seed)
	case 2:
		return genWSServerScript(rng, seed)
	}
	g, _ := mixedGenesis(rng)
	g.Erc20Native, g.StakingCpc = true, true
	// extreme but valid consensus parameters are part of the quantifier
	g.MaxGas = pick(rng, int64(40_000_000), 40_000_000, 400_000, -1, -1, 0, 1, 2, 21000)
	s := &Script{Prop: "C20", Seed: seed, Gen: g, Extra: map[string]string{"transparency": "1"}}
	s.Node = NodeOpts{MinGasPrices: pick(rng, "", "1wei")}
	ops := []Op{{K: "block", Dt: 5}}
	nb := 3 + rng.IntN(7)
	for b := 0; b < nb; b++ {
		for i, n := 0, rng.IntN(8); i < n; i++ {
			if rng.IntN(3) == 0 {
				ops = append(ops, genMixedTx(rng, &g))
			} else {
				ops = append(ops, genAdversarialOp(rng, &g))
			}
		}
		ops = append(ops, Op{K: "block", Dt: 5, Prop: rng.IntN(4), Byz: rng.IntN(2) == 0})
	}
	ops = append(ops, Op{K: "live", W: g.Wallets - 1})
	s.Ops = ops
	return s
}

// runC20: the adversarial history, then the transparency twin.
func runC20(rt *Runtime, r *RunCtx, s *Script) {
	switch s.Extra["sched"] {
	case "bus":
		runBusScenario(rt, r, s)
		return
	case "filters":
		runFilterScenario(rt, r, s)
		return
	case "wsserver":
		runWSServerScenario(rt, r, s)
		return
	}
	var w *World
	rt.Bubble(s.WallOffsetS, func() {
		w = runMixedIn(r, s)
		if w.C.InitErr != nil || w.C.InitPanic != nil {
			return
		}
		transparencyTwin(r, w)
	})
}

// transparencyTwin: for every block B of the primary, a twin at the same pre-state executes B' = B minus the
// transactions that were undecodable, zero-message or rejected at admission; the remaining transactions
// must get identical results (a failure inside one transaction never alters the results of the others).
func transparencyTwin(r *RunCtx, w *World) {
	db := sdkdb.NewMemDB()
	n := NewNode("twin", db, NodeOpts{})
	n.Observe = false
	if _, err, pi := n.InitChain(w.G.InitChain); err != nil || pi != nil {
		return
	}
	for _, rec := range w.C.Records {
		if rec.Res == nil {
			return
		}
		txs := ParseBlock(rec)
		var keep [][]byte
		var keepIdx []int
		dropped := 0
		nearLimit := rec.MaxGas > 0 && rec.Obs != nil && rec.Obs.EndGasRaw*10 >= uint64(rec.MaxGas)*7
		for _, t := range txs {
			rejected := t.Obs == nil || t.Obs.AnteErr != nil
			if rejected {
				dropped++
				continue
			}
			keep = append(keep, t.Bytes)
			keepIdx = append(keepIdx, t.Pos)
		}
		if dropped > 0 && len(keep) > 0 && !nearLimit {
			req := *rec.Req
			req.Txs = keep
			res, err, pi := n.FinalizeBlock(&req)
			r.Count("o:transparency_blocks")
			if pi != nil {
				r.Violate("C20", "abci_panic", map[string]string{"phase": "FinalizeBlock", "site": panicSite(pi)}, "FinalizeBlock(B') panicked: %s", pi.Value)
				return
			}
			if err == nil && res != nil {
				for j, pos := range keepIdx {
					a, b := rec.Res.TxResults[pos], res.TxResults[j]
					r.At(rec.Height, pos)
					if a.Code != b.Code || !bytes.Equal(a.Data, b.Data) || a.GasUsed != b.GasUsed || a.GasWanted != b.GasWanted {
						r.Violate("C20", "rejected_tx_altered_other_results", map[string]string{"field": "code_data_gas"},
							"tx %d: (code %d gasU %d) in the full block, (code %d gasU %d) when the %d rejected txs are left out; logs %q / %q", pos, a.Code, a.GasUsed, b.Code, b.GasUsed, dropped, a.Log, b.Log)
					} else if d := firstEventDiff(flattenEvents(a.Events), flattenEvents(b.Events)); d != "" {
						r.Violate("C20", "rejected_tx_altered_other_results", map[string]string{"field": "events"}, "tx %d: events differ when the %d rejected txs are left out: %s", pos, dropped, d)
					}
				}
			}
			// discard the uncommitted execution: restart from disk
			n.Open()
			if n.App.LastBlockHeight() == 0 {
				if _, err, pi := n.InitChain(w.G.InitChain); err != nil || pi != nil {
					return
				}
			}
		}
		if _, err, pi := n.FinalizeBlock(rec.Req); err != nil || pi != nil {
			return
		}
		if _, err, pi := n.Commit(); err != nil || pi != nil {
			return
		}
	}
}

func init() {
	Arms["C20"] = &Arm{Gen: genC20, Run: runC20}
}
