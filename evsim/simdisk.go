package evsim

import (
	"errors"
	"sync"

	sdkdb "github.com/cosmos/cosmos-db"
)

// ---- simulated disk for node-local databases (the EVM tx index) --------------------------------------
//
// SimDisk holds what is durable; a SimDB is one process incarnation's handle on it. Every mutating call is
// one "write" (a batch is atomic, as goleveldb / pebble give). A handle can be armed to die at its k-th
// write: that write is not applied, the handle is frozen (every later call fails), and the next incarnation
// opens a new handle over the durable image. With lose-unsynced the image additionally drops the last j
// writes that were never followed by a sync (prefix-consistent loss, as after a power cut).

var ErrSimCrash = errors.New("simulated crash: the process is dead")

type simWrite struct {
	sets [][2][]byte
	dels [][]byte
}

type SimDisk struct {
	mu      sync.Mutex
	synced  *sdkdb.MemDB
	pending []simWrite // applied to every live view, not yet synced
	Writes  int        // total writes ever applied
}

func NewSimDisk() *SimDisk { return &SimDisk{synced: sdkdb.NewMemDB()} }

// Image materialises the durable state, dropping the last lose unsynced writes.
func (d *SimDisk) image(lose int) *sdkdb.MemDB {
	m := sdkdb.NewMemDB()
	it, _ := d.synced.Iterator(nil, nil)
	for ; it.Valid(); it.Next() {
		_ = m.Set(append([]byte(nil), it.Key()...), append([]byte(nil), it.Value()...))
	}
	it.Close()
	keep := len(d.pending) - lose
	if keep < 0 {
		keep = 0
	}
	d.pending = d.pending[:keep]
	for _, w := range d.pending {
		for _, kv := range w.sets {
			_ = m.Set(kv[0], kv[1])
		}
		for _, k := range w.dels {
			_ = m.Delete(k)
		}
	}
	return m
}

// Open returns a new handle over the durable image (process start). lose > 0 models a power cut.
func (d *SimDisk) Open(lose int) *SimDB {
	d.mu.Lock()
	defer d.mu.Unlock()
	lost := lose
	if lost > len(d.pending) {
		lost = len(d.pending)
	}
	return &SimDB{disk: d, view: d.image(lose), Lost: lost}
}

type SimDB struct {
	disk   *SimDisk
	view   *sdkdb.MemDB
	mu     sync.Mutex
	dead   bool
	KillAt int // die at the k-th write of this handle (1 = the next one); 0 = never
	n      int
	Lost   int
	Killed bool
}

func (s *SimDB) apply(w simWrite, sync bool) error {
	s.mu.Lock()
	defer s.mu.Unlock()
	if s.dead {
		return ErrSimCrash
	}
	s.n++
	if s.KillAt > 0 && s.n >= s.KillAt {
		s.dead, s.Killed = true, true
		return ErrSimCrash
	}
	for _, kv := range w.sets {
		_ = s.view.Set(kv[0], kv[1])
	}
	for _, k := range w.dels {
		_ = s.view.Delete(k)
	}
	s.disk.mu.Lock()
	s.disk.pending = append(s.disk.pending, w)
	s.disk.Writes++
	if sync {
		for _, p := range s.disk.pending {
			for _, kv := range p.sets {
				_ = s.disk.synced.Set(kv[0], kv[1])
			}
			for _, k := range p.dels {
				_ = s.disk.synced.Delete(k)
			}
		}
		s.disk.pending = nil
	}
	s.disk.mu.Unlock()
	return nil
}

// Freeze kills the handle now (process killed between two writes).
func (s *SimDB) Freeze() {
	s.mu.Lock()
	s.dead = true
	s.mu.Unlock()
}

func (s *SimDB) WritesDone() int { s.mu.Lock(); defer s.mu.Unlock(); return s.n }

func (s *SimDB) alive() error {
	s.mu.Lock()
	defer s.mu.Unlock()
	if s.dead {
		return ErrSimCrash
	}
	return nil
}

func cp(b []byte) []byte { return append([]byte(nil), b...) }

func (s *SimDB) Get(k []byte) ([]byte, error) {
	if err := s.alive(); err != nil {
		return nil, err
	}
	return s.view.Get(k)
}
func (s *SimDB) Has(k []byte) (bool, error) {
	if err := s.alive(); err != nil {
		return false, err
	}
	return s.view.Has(k)
}
func (s *SimDB) Set(k, v []byte) error     { return s.apply(simWrite{sets: [][2][]byte{{cp(k), cp(v)}}}, false) }
func (s *SimDB) SetSync(k, v []byte) error { return s.apply(simWrite{sets: [][2][]byte{{cp(k), cp(v)}}}, true) }
func (s *SimDB) Delete(k []byte) error     { return s.apply(simWrite{dels: [][]byte{cp(k)}}, false) }
func (s *SimDB) DeleteSync(k []byte) error { return s.apply(simWrite{dels: [][]byte{cp(k)}}, true) }
func (s *SimDB) Iterator(a, b []byte) (sdkdb.Iterator, error) {
	if err := s.alive(); err != nil {
		return nil, err
	}
	return s.view.Iterator(a, b)
}
func (s *SimDB) ReverseIterator(a, b []byte) (sdkdb.Iterator, error) {
	if err := s.alive(); err != nil {
		return nil, err
	}
	return s.view.ReverseIterator(a, b)
}
func (s *SimDB) Close() error                      { return nil }
func (s *SimDB) NewBatch() sdkdb.Batch             { return &simBatch{db: s} }
func (s *SimDB) NewBatchWithSize(int) sdkdb.Batch  { return &simBatch{db: s} }
func (s *SimDB) Print() error                      { return nil }
func (s *SimDB) Stats() map[string]string          { return map[string]string{} }

type simBatch struct {
	db   *SimDB
	w    simWrite
	size int
	done bool
}

func (b *simBatch) Set(k, v []byte) error {
	b.w.sets = append(b.w.sets, [2][]byte{cp(k), cp(v)})
	b.size += len(k) + len(v)
	return nil
}
func (b *simBatch) Delete(k []byte) error {
	b.w.dels = append(b.w.dels, cp(k))
	b.size += len(k)
	return nil
}
func (b *simBatch) Write() error     { return b.write(false) }
func (b *simBatch) WriteSync() error { return b.write(true) }
func (b *simBatch) write(sync bool) error {
	if b.done {
		return errors.New("batch has been written or closed")
	}
	b.done = true
	if len(b.w.sets) == 0 && len(b.w.dels) == 0 {
		return b.db.alive() // an empty batch touches nothing on disk
	}
	return b.db.apply(b.w, sync)
}
func (b *simBatch) Close() error              { b.done = true; return nil }
func (b *simBatch) GetByteSize() (int, error) { return b.size, nil }

// DumpDB lists every entry of a database.
func DumpDB(db sdkdb.DB) []KV {
	it, err := db.Iterator(nil, nil)
	if err != nil {
		return nil
	}
	defer it.Close()
	var out []KV
	for ; it.Valid(); it.Next() {
		out = append(out, KV{cp(it.Key()), cp(it.Value())})
	}
	return out
}
