package evsim

import (
	"crypto/sha256"
	"encoding/hex"
	"encoding/json"
	"fmt"
	"hash"
	"sort"
	"strings"
)

// Violation is one oracle failure. Check + Disc form the discriminator that known_findings.json matches.
type Violation struct {
	Property string            `json:"property"`
	KeyStr   string            `json:"key"`
	Check    string            `json:"check"`
	Disc     map[string]string `json:"disc"`
	Detail   string            `json:"detail"`
	Height   int64             `json:"height"`
	TxPos    int               `json:"tx_pos"`
	EventIdx int               `json:"event_idx"`
}

// Key is the canonical form of the discriminator.
func (v *Violation) Key() string {
	ks := make([]string, 0, len(v.Disc))
	for k := range v.Disc {
		ks = append(ks, k)
	}
	sort.Strings(ks)
	var sb strings.Builder
	sb.WriteString(v.Property + "/" + v.Check)
	for _, k := range ks {
		sb.WriteString(";" + k + "=" + v.Disc[k])
	}
	return sb.String()
}

// RunCtx is the per-run recorder every oracle writes into.
type RunCtx struct {
	Prop   string
	Seed   uint64
	Script *Script

	Viol     []Violation
	Stats    map[string]int64 // faults fired, outcome classes, probes (prefix f: o: p:)
	Cross    map[string]int64 // observations of other properties' always-on oracles
	States   map[string]bool  // distinct non-trivial cases by the arm's rule
	Samples  []json.RawMessage
	SimSecs  int64
	events   int
	logHash  hash.Hash
	LogLines []string
	KeepLog  bool
	curH     int64
	curTx    int
}

func NewRunCtx(prop string, seed uint64) *RunCtx {
	return &RunCtx{Prop: prop, Seed: seed, Stats: map[string]int64{}, Cross: map[string]int64{}, States: map[string]bool{}, logHash: sha256.New()}
}

// At sets the position reported with subsequent violations.
func (r *RunCtx) At(height int64, txPos int) { r.curH, r.curTx = height, txPos }

// Violate records a violation of property prop. Violations of other properties than the run's own are
// kept as cross observations only (a check exits 1 only for its own property).
func (r *RunCtx) Violate(prop, check string, disc map[string]string, format string, args ...interface{}) {
	v := Violation{Property: prop, Check: check, Disc: disc, Detail: fmt.Sprintf(format, args...), Height: r.curH, TxPos: r.curTx, EventIdx: r.events}
	v.KeyStr = v.Key()
	r.Logf("VIOL %s", v.KeyStr)
	if r.KeepLog {
		r.LogLines = append(r.LogLines, "     detail: "+v.Detail)
	}
	if prop != r.Prop {
		r.Cross["viol:"+v.Key()]++
		return
	}
	r.Viol = append(r.Viol, v)
}

func (r *RunCtx) Count(name string)        { r.Stats[name]++ }
func (r *RunCtx) Add(name string, n int64) { r.Stats[name] += n }
func (r *RunCtx) State(key string)         { r.States[key] = true }
func (r *RunCtx) Probe(name string, hit bool) {
	if hit {
		r.Stats["p:"+name]++
	} else if _, ok := r.Stats["p:"+name]; !ok {
		r.Stats["p:"+name] = 0
	}
}

// Logf appends to the run's event log (digest always, text when KeepLog). It never draws randomness
// and never reads a clock.
func (r *RunCtx) Logf(format string, args ...interface{}) {
	s := fmt.Sprintf(format, args...)
	r.events++
	r.logHash.Write([]byte(s))
	r.logHash.Write([]byte{'\n'})
	if r.KeepLog {
		r.LogLines = append(r.LogLines, s)
	}
}

func (r *RunCtx) Digest() string { return hex.EncodeToString(r.logHash.Sum(nil)) }

// RunReport is what a worker writes per run.
type RunReport struct {
	Prop    string           `json:"prop"`
	Seed    uint64           `json:"seed"`
	Digest  string           `json:"digest"`
	Events  int              `json:"events"`
	SimSecs int64            `json:"sim_secs"`
	Viol    []Violation      `json:"viol,omitempty"`
	Stats   map[string]int64 `json:"stats"`
	Cross   map[string]int64 `json:"cross,omitempty"`
	States  []string         `json:"states"`
	Sample  json.RawMessage  `json:"sample,omitempty"`
	Script  *Script          `json:"script,omitempty"`
	WallMs  int64            `json:"wall_ms"`
	Infra   string           `json:"infra,omitempty"` // harness/infrastructure failure (exit 2), never a verdict
}

func (r *RunCtx) Report() *RunReport {
	st := make([]string, 0, len(r.States))
	for k := range r.States {
		st = append(st, k)
	}
	sort.Strings(st)
	rep := &RunReport{Prop: r.Prop, Seed: r.Seed, Digest: r.Digest(), Events: r.events, SimSecs: r.SimSecs, Viol: r.Viol, Stats: r.Stats, Cross: r.Cross, States: st}
	if len(r.Viol) > 0 {
		rep.Script = r.Script
	}
	return rep
}
