#!/bin/bash
# dev loop: build once, run N seeds of a property in one process, summarise
export GOFLAGS=-mod=mod GOPROXY=off GOSUMDB=off GOTOOLCHAIN=local
PROP=$1; N=${2:-50}; SEED=${3:-1}
REPO=${EVSIM_REPO:-/repo}
(cd /verif/instr && go1.26.8 build -o /var/tmp/instr.dev . ) || exit 2
/var/tmp/instr.dev -repo $REPO -out /var/tmp/ov-dev -maporder ./x/evm/...,./x/cpc/...,./x/feemarket/...,./x/vauth/...,./app/...,./types/...,./utils/...,./rpc/ethereum/pubsub/...,./rpc/namespaces/ethereum/eth/filters/...,./rpc -yield ./rpc/ethereum/pubsub/...,./rpc/namespaces/ethereum/eth/filters/...,./rpc || exit 2
sed "s#=> /repo\$#=> $REPO#" /verif/evsim/go.mod > /var/tmp/dev.go.mod; cp /verif/evsim/go.sum /var/tmp/dev.go.sum
cd /verif/evsim && go1.26.8 test -modfile=/var/tmp/dev.go.mod -overlay=/var/tmp/ov-dev/overlay.json -c -o /var/tmp/evsim.dev.test . || exit 2
cd /var/tmp && EVSIM_PROP=$PROP EVSIM_SEED=$SEED EVSIM_FROM=0 EVSIM_TO=$N EVSIM_OUT=/var/tmp/dev.jsonl ./evsim.dev.test -test.run '^TestEvsim$' -test.timeout 1h 2>&1 | grep -v "^####" | tail -5
python3 - <<'PY'
import json
ks={}; st={}; cross={}; infra=0; n=0; ms=0
first={}
for l in open('/var/tmp/dev.jsonl'):
    r=json.loads(l); n+=1; ms+=r['wall_ms']
    if r.get('infra'):
        infra+=1
        if infra<3: print('INFRA', r['seed'], r['infra'][:1500])
    for v in r.get('viol') or []:
        ks[v['key']]=ks.get(v['key'],0)+1
        first.setdefault(v['key'], (r['seed'], v['detail'], v['height'], v['tx_pos']))
    for k,v in r['stats'].items(): st[k]=st.get(k,0)+v
    for k,v in (r.get('cross') or {}).items(): cross[k]=cross.get(k,0)+v
print('runs',n,'avg ms',ms//max(n,1),'infra',infra)
for k,v in sorted(ks.items()): print('VIOL',v,k,'\n     first:',first[k])
print('stats',json.dumps(st,sort_keys=True))
print('cross',json.dumps(cross,sort_keys=True))
PY
