#!/usr/bin/env python3
"""tools/try_mutant.py <seeded-id> <PROP[,PROP...]> [--tier quick]
Applies /verif/seeded/<id>/patch.diff in a scratch worktree of /repo (HEAD), runs the checks against it with
evidence/replays redirected to a scratch dir, removes the worktree, records the outcome in meta.json."""
import json, os, subprocess, sys, shutil, time
sid, props = sys.argv[1], sys.argv[2].split(",")
tier = "quick"
wt = "/tmp/try/" + sid
out = "/var/tmp/try-out/" + sid
os.makedirs("/tmp/try", exist_ok=True); os.makedirs(out, exist_ok=True)
subprocess.run("git -C /repo worktree remove --force %s" % wt, shell=True, stdout=subprocess.DEVNULL, stderr=subprocess.DEVNULL)
subprocess.run("git -C /repo worktree add --detach %s HEAD" % wt, shell=True, check=True, stdout=subprocess.DEVNULL, stderr=subprocess.DEVNULL)
res = {}
try:
    p = subprocess.run("git apply /verif/seeded/%s/patch.diff" % sid, shell=True, cwd=wt, stdout=subprocess.PIPE, stderr=subprocess.STDOUT, text=True)
    if p.returncode != 0:
        print("patch does not apply:", p.stdout); sys.exit(2)
    env = dict(os.environ, EVSIM_REPO=wt, EVSIM_OUT_DIR=out)
    for prop in props:
        t0 = time.time()
        p = subprocess.run(["/verif/check", prop, "--tier", tier, "--no-min"], cwd="/verif", env=env, stdout=subprocess.PIPE, stderr=subprocess.STDOUT, text=True)
        lines = [l for l in p.stdout.splitlines() if l.startswith("VIOLATION") or l.startswith("  check=") or l.startswith("OK ") or l.startswith("INFRA")]
        res[prop] = {"exit": p.returncode, "detected": p.returncode == 1, "lines": lines[:8], "wall_s": int(time.time() - t0)}
        print(prop, p.returncode, "\n   ".join(lines[:6]))
finally:
    subprocess.run("git -C /repo worktree remove --force %s" % wt, shell=True, stdout=subprocess.DEVNULL, stderr=subprocess.DEVNULL)
    shutil.rmtree(out, ignore_errors=True)
mp = "/verif/seeded/%s/meta.json" % sid
m = json.load(open(mp))
d = m.get("detected_by") or {}
for k, v in res.items():
    d[k] = {"detected": v["detected"], "exit": v["exit"], "tier": tier, "verif_commit": subprocess.run("git -C /verif rev-parse --short HEAD", shell=True, stdout=subprocess.PIPE, text=True).stdout.strip(), "first_lines": v["lines"][:3]}
m["detected_by"] = d
json.dump(m, open(mp, "w"), indent=1)
