#!/usr/bin/env python3
"""tools/manifest_add.py <ID> <technique> <text> [note-extra]  - add or replace a check entry in MANIFEST.json"""
import json, sys
pid, technique, text = sys.argv[1], sys.argv[2], sys.argv[3]
extra = sys.argv[4] if len(sys.argv) > 4 else ""
p = '/verif/MANIFEST.json'
m = json.load(open(p))
note = ("Trusted: the harness (consensus stub, script interpreter, oracles), go1.26.8 testing/synctest fake clock, cosmos-sdk/IAVL/go-ethereum "
        "dependencies as built. CometBFT is stubbed. Sampling by seed: a clean batch is evidence, not proof.")
if extra:
    note += " " + extra
e = {"property_id": pid, "quick_cmd": "./check %s --tier quick" % pid, "thorough_cmd": "./check %s --tier thorough" % pid,
     "evidence_file": "/verif/evidence/%s.json" % pid, "replay_cmd_template": "./check replay {path}", "engine": "evsim",
     "level_claimed": {"category": "exploration", "text": text, "design_ref": "DESIGN.md " + pid},
     "level_note": note, "technique": technique}
m['checks'] = [c for c in m['checks'] if c['property_id'] != pid] + [e]
m['checks'].sort(key=lambda c: c['property_id'])
m['not_applicable'] = [n for n in m['not_applicable'] if n['property_id'] != pid]
sp = m['engines'][0]['serves_properties']
if pid not in sp:
    sp.append(pid); sp.sort()
json.dump(m, open(p, 'w'), indent=1)
print("ok", [c['property_id'] for c in m['checks']])
