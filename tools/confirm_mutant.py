#!/usr/bin/env python3
"""tools/confirm_mutant.py <PROP> <mN> [--suite]

Confirms a seeded change delivered by a sub-agent in /tmp/mut/<PROP>/_out/<mN>/ in a scratch worktree of /repo
(created at /repo's current HEAD under /tmp/confirm, removed afterwards):
  1. patch.diff applies to the clean tree, `go build ./...` passes
  2. the demonstration FAILS with the patch and PASSES without it
  3. (--suite) the whole existing test suite passes with the patch (only the known always-failing test may fail)
and, when all of that holds, stores the change as /verif/seeded/<PROP>-<mN>/ (patch.diff, demo, meta.json).
Prints one JSON line with the outcome.
"""
import json, os, re, shutil, subprocess, sys, time

prop, mn = sys.argv[1], sys.argv[2]
suite = "--suite" in sys.argv
src = "/tmp/mut/%s/_out/%s" % (prop, mn)
wt = "/tmp/confirm/%s-%s" % (prop, mn)
env = dict(os.environ, GOFLAGS="-mod=mod", GOPROXY="off", GOSUMDB="off")
out = {"property": prop, "mutant": mn}


def sh(cmd, cwd=wt, timeout=3600):
    p = subprocess.run(cmd, shell=True, cwd=cwd, env=env, stdout=subprocess.PIPE, stderr=subprocess.STDOUT, text=True, timeout=timeout)
    return p.returncode, p.stdout


os.makedirs("/tmp/confirm", exist_ok=True)
subprocess.run("git -C /repo worktree remove --force %s" % wt, shell=True, stdout=subprocess.DEVNULL, stderr=subprocess.DEVNULL)
rc, o = sh("git -C /repo worktree add --detach %s HEAD" % wt, cwd="/")
if rc != 0:
    print(json.dumps({**out, "ok": False, "why": "worktree: " + o[-300:]})); sys.exit(1)
try:
    demo = open(os.path.join(src, "demo_test.go")).read()
    m = re.search(r"place in:\s*(\S+)", demo)
    place = m.group(1).strip("`'\"") if m else None
    if not place:
        raise SystemExit(json.dumps({**out, "ok": False, "why": "no 'place in' line"}))
    place = place.rstrip("/")
    extra = [f for f in os.listdir(src) if f.endswith(".go") and f != "demo_test.go"]
    demofile = os.path.join(wt, place, "zz_seeded_demo_test.go")

    def put_demo():
        os.makedirs(os.path.dirname(demofile), exist_ok=True)
        shutil.copy(os.path.join(src, "demo_test.go"), demofile)
        for f in extra:
            shutil.copy(os.path.join(src, f), os.path.join(wt, place, "zz_" + f))

    def del_demo():
        for f in [demofile] + [os.path.join(wt, place, "zz_" + f) for f in extra]:
            if os.path.exists(f):
                os.remove(f)

    names = re.findall(r"^func (Test\w+)\(t \*testing\.T\)", demo, re.M)
    meths = re.findall(r"^func \(\w+ \*?(\w+)\) (Test\w+)\(\)", demo, re.M)
    if names:
        run = "-run '^(%s)$'" % "|".join(names)
    elif meths:
        # suite methods: run the package's suite entry point(s) filtered by method name
        run = "-run . -testify.m='^(%s)$'" % "|".join(n for _, n in meths)
    else:
        run = ""
    democmd = "go test -vet=off -count=1 -timeout 20m ./%s/ %s 2>&1 | tail -40" % (place, run)

    # without patch
    put_demo()
    rc0, o0 = sh(democmd)
    passed_without = (" ok " in o0.replace("\t", " ") or o0.startswith("ok")) and "FAIL" not in o0
    # with patch
    rc, o = sh("git apply %s/patch.diff" % src)
    if rc != 0:
        raise SystemExit(json.dumps({**out, "ok": False, "why": "patch does not apply at HEAD: " + o[-300:]}))
    rc, o = sh("go build ./... 2>&1 | tail -20")
    if "rror" in o or rc != 0:
        raise SystemExit(json.dumps({**out, "ok": False, "why": "build: " + o[-300:]}))
    rc1, o1 = sh(democmd)
    failed_with = "FAIL" in o1
    out.update(demo_passes_without=passed_without, demo_fails_with=failed_with)
    suite_ok = None
    if suite:
        del_demo()
        t0 = time.time()
        rc, o = sh("go test -vet=off -count=1 -timeout 25m ./... 2>&1 | grep -v 'no test files' | tail -80", timeout=3000)
        fails = [l for l in o.splitlines() if l.startswith("FAIL") or l.startswith("--- FAIL")]
        bad = [l for l in fails if "TestInitConfigNonNotExistError" not in l and not re.match(r"FAIL\s+github.com/EscanBE/evermint/v12/client\s", l) and l.strip() != "FAIL"]
        suite_ok = len(bad) == 0
        out.update(suite_passes_with=suite_ok, suite_s=int(time.time() - t0), suite_fail_lines=bad[:5])
    ok = passed_without and failed_with and (suite_ok is not False)
    out["ok"] = ok
    if not ok:
        out["demo_without_tail"] = o0[-600:]
        out["demo_with_tail"] = o1[-600:]
    if ok and (suite_ok or not suite):
        dst = "/verif/seeded/%s-%s" % (prop, mn)
        os.makedirs(dst, exist_ok=True)
        shutil.copy(os.path.join(src, "patch.diff"), dst)
        shutil.copy(os.path.join(src, "demo_test.go"), dst)
        for f in extra:
            shutil.copy(os.path.join(src, f), dst)
        if os.path.exists(os.path.join(src, "README.md")):
            shutil.copy(os.path.join(src, "README.md"), os.path.join(dst, "AGENT_README.md"))
        meta = {"property": prop, "id": "%s-%s" % (prop, mn), "demo_place": place,
                "confirmed": {"applies_at": subprocess.run("git -C /repo rev-parse --short HEAD", shell=True, stdout=subprocess.PIPE, text=True).stdout.strip(),
                              "build": True, "demo_passes_without": passed_without, "demo_fails_with": failed_with, "suite_passes_with": suite_ok,
                              "commands": ["git apply patch.diff", "go build ./...", democmd, "go test -vet=off -count=1 -timeout 25m ./... (with patch)" if suite else "suite not re-run by us"]},
                "needs_to_manifest": "see AGENT_README.md", "detected_by": None}
        mp = os.path.join(dst, "meta.json")
        if os.path.exists(mp):
            old = json.load(open(mp))
            meta["needs_to_manifest"] = old.get("needs_to_manifest", meta["needs_to_manifest"])
            meta["detected_by"] = old.get("detected_by")
        json.dump(meta, open(mp, "w"), indent=1)
    print(json.dumps(out))
finally:
    subprocess.run("git -C /repo worktree remove --force %s" % wt, shell=True, stdout=subprocess.DEVNULL, stderr=subprocess.DEVNULL)
