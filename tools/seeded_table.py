#!/usr/bin/env python3
"""Generates /verif/seeded/RESULTS.md from the meta.json files of the seeded changes."""
import json, glob, os, re
rows = []
for mp in sorted(glob.glob('/verif/seeded/*/meta.json')):
    m = json.load(open(mp))
    d = os.path.dirname(mp)
    what = ""
    rd = os.path.join(d, "AGENT_README.md")
    if os.path.exists(rd):
        for line in open(rd):
            line = line.strip()
            if line and not line.startswith('#') and len(line) > 30:
                what = re.sub(r'\s+', ' ', line)[:230]
                break
    if m.get("summary"):
        what = m["summary"]
    det = m.get("detected_by") or {}
    caught = [k for k, v in sorted(det.items()) if v.get("detected")]
    missed = [k for k, v in sorted(det.items()) if not v.get("detected")]
    first = ""
    for k in caught:
        fl = det[k].get("first_lines") or []
        for l in fl:
            if "check=" in l:
                first = l.strip()[:160]
                break
        if first:
            break
    rows.append((m["id"], m["property"], what, ", ".join(caught) or "—", ", ".join(missed) or "—", first))
out = ["# Seeded changes: which checks catch them", "",
       "Produced by independent sub-agents (property text + scratch worktree only), confirmed by `tools/confirm_mutant.py`,",
       "tried by `tools/try_mutant.py` (quick tier, scratch worktree at /repo HEAD with the change applied).", "",
       "| id | breaks | change (first line of the author's description) | caught by (quick) | tried, not caught | first violation line |",
       "|---|---|---|---|---|---|"]
for r in rows:
    out.append("| %s | %s | %s | %s | %s | %s |" % tuple(x.replace("|", "\\|") for x in r))
n_all = len(rows)
n_c = sum(1 for r in rows if r[3] != "—" and any("thorough" not in k for k in r[3].split(", ")))
n_t = sum(1 for r in rows if r[3] != "—" and all("thorough" in k for k in r[3].split(", ")))
out += ["", "%d of %d seeded changes are caught by at least one quick check, %d more only by the thorough tier." % (n_c, n_all, n_t)]
open('/verif/seeded/RESULTS.md', 'w').write("\n".join(out) + "\n")
print("%d/%d caught" % (n_c, n_all))
for r in rows:
    if r[3] == "—":
        print("NOT CAUGHT:", r[0], r[4])
